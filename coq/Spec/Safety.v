(* Safety.v (protocol level): Leader Completeness and State Machine Safety for any network of
   nodes that obey the rules the node model implements, with static membership [vs]:
     Campaign      a node raises its term
     Vote          one vote per term, never in a lower term, only for a candidate of that
                   term whose log is at least as up to date (last term, then length)
     BecomeLeader  a candidate of term t with votes of term t from a majority of [vs], no
                   leadership of t yet; the leadership's log starts as the candidate's log
     LeaderAppend  the leader of t appends an entry of term t at the end of its log
     FollowerAppend  as in LogMatching.v, from a leadership s >= the follower's term
     Ack           a node in term s acknowledges that its log agrees with the leadership's log
                   of s up to length k
     Commit        the leadership of s commits position i if the entry there has term s and a
                   majority of [vs] acknowledged a length > i in term s
     Lose          a node crashes and restarts: it keeps its term and vote, loses any suffix of its
                   log beyond what it acknowledged, and is no longer a candidate
   Messages can be delayed, duplicated, reordered, lost (every step may use any slice of the
   append-only ghost logs at any time).  History variables: every vote records the candidate's
   and the voter's log at that moment.  Unbounded nodes, terms, lengths, steps. *)
From Coq Require Import List NArith Bool Lia Arith.
From RaftV Require Import LogMatching.
From RaftV Require QuorumProofs.
Import ListNotations.

Section WithVoters.
Variable vs : list N.     (* the voters (static membership) *)
Variable vo : list N.     (* the outgoing voters when the static configuration is joint, [] otherwise *)

Record vrec := mkV {
  vr_voter : N; vr_term : N; vr_cand : N;
  vr_clog : list aent;      (* candidate's log when the vote was cast *)
  vr_vlog : list aent;      (* voter's log when the vote was cast *)
}.

Record sstate := mkS {
  sg : gstate;                          (* logs and leaderships, as in LogMatching *)
  tm : N -> N;                          (* current term of each node *)
  votes : list vrec;
  acks : list (N * N * nat);            (* (node, term, length) *)
  acc : N -> list N;                    (* leaderships a node accepted entries from, or led *)
  ldr : N -> option N;                  (* leader of each term *)
  commits : list (nat * aent * N);      (* (position, entry, term of the committing leadership) *)
  cnd : N -> bool;                      (* volatile: the node campaigns in its current term and has not crashed,
                                           stepped down or moved on since *)
}.

Definition lastT (l : list aent) : N := match rev l with [] => 0%N | e :: _ => fst e end.

Definition utd (lc lv : list aent) : Prop :=
  (lastT lv < lastT lc)%N \/ (lastT lc = lastT lv /\ (length lv <= length lc)%nat).

Definition voted_for (s : sstate) (t c v : N) : bool :=
  existsb (fun r => N.eqb (vr_voter r) v && N.eqb (vr_term r) t && N.eqb (vr_cand r) c) (votes s).

Definition acked (s : sstate) (t : N) (i : nat) (q : N) : bool :=
  existsb (fun a => match a with (n, t', k) => N.eqb n q && N.eqb t' t && Nat.ltb i k end) (acks s).

Definition maj1 (l : list N) (f : N -> bool) : Prop := (2 * length (filter f l) > length l)%nat.
Definition maj1b (l : list N) (f : N -> bool) : bool := Nat.ltb (length l) (2 * length (filter f l)).
(* a quorum: a strict majority of the voters and, in a joint configuration, of the outgoing voters
   too (stated as a boolean equation so that it stays one atom for the proofs below; majority_spec
   says what it means) *)
Definition majority (f : N -> bool) : Prop :=
  maj1b vs f && (match vo with [] => true | _ => maj1b vo f end) = true.

Lemma maj1b_spec l f : maj1b l f = true <-> maj1 l f.
Proof. unfold maj1b, maj1. rewrite Nat.ltb_lt. lia. Qed.

Lemma majority_spec f : majority f <-> maj1 vs f /\ (vo = [] \/ maj1 vo f).
Proof.
  unfold majority. rewrite andb_true_iff, maj1b_spec. split; intros [A B]; (split; [exact A|]).
  - destruct vo; [left; reflexivity|right; apply maj1b_spec; exact B].
  - destruct vo; [reflexivity|]. destruct B as [B|B]; [discriminate|apply maj1b_spec; exact B].
Qed.

Definition updN {A} (f : N -> A) (k : N) (v : A) : N -> A := fun k' => if N.eqb k' k then v else f k'.

Definition L (s : sstate) (t : N) : list aent := logs (sg s) (KLead t).
Definition nlog (s : sstate) (n : N) : list aent := logs (sg s) (KNode n).

Inductive sstep : sstate -> sstate -> Prop :=
| SCampaign s c t :
    (tm s c < t)%N ->
    sstep s (mkS (sg s) (updN (tm s) c t) (votes s) (acks s) (acc s) (ldr s) (commits s) (updN (cnd s) c true))
| SVote s v t c :
    (tm s v <= t)%N -> tm s c = t -> cnd s c = true -> active (sg s) t = false ->
    (forall r, In r (votes s) -> vr_voter r = v -> vr_term r = t -> vr_cand r = c) ->
    utd (nlog s c) (nlog s v) ->
    sstep s (mkS (sg s) (updN (tm s) v t)
                 (mkV v t c (nlog s c) (nlog s v) :: votes s) (acks s) (acc s) (ldr s) (commits s) (cnd s))
| SBecomeLeader s c t g' :
    tm s c = t -> cnd s c = true -> active (sg s) t = false -> majority (voted_for s t c) ->
    gstep (sg s) g' ->
    g' = mkG (upd (logs (sg s)) (KLead t) (nlog s c)) (fun t' => if N.eqb t' t then true else active (sg s) t') ->
    sstep s (mkS g' (tm s) (votes s) (acks s) (updN (acc s) c (t :: acc s c)) (updN (ldr s) t (Some c)) (commits s) (cnd s))
| SLeaderAppend s c t x g' :
    tm s c = t -> ldr s t = Some c -> active (sg s) t = true -> nlog s c = L s t ->
    g' = mkG (upd (upd (logs (sg s)) (KLead t) (L s t ++ [(t, x)])) (KNode c) (L s t ++ [(t, x)])) (active (sg s)) ->
    sstep s (mkS g' (tm s) (votes s) (acks s) (acc s) (ldr s) (commits s) (cnd s))
| SFollowerAppend s m t prev cnt pt g' :
    (tm s m <= t)%N -> active (sg s) t = true ->
    prev_term (nlog s m) prev = Some pt -> prev_term (L s t) prev = Some pt ->
    g' = mkG (upd (logs (sg s)) (KNode m) (fappend (nlog s m) prev (firstn cnt (skipn prev (L s t))))) (active (sg s)) ->
    sstep s (mkS g' (updN (tm s) m t) (votes s) (acks s) (updN (acc s) m (t :: acc s m)) (ldr s) (commits s) (updN (cnd s) m false))
| SAck s m t k :
    tm s m = t -> active (sg s) t = true -> agree k (nlog s m) (L s t) -> (k <= length (nlog s m))%nat ->
    sstep s (mkS (sg s) (tm s) (votes s) ((m, t, k) :: acks s) (acc s) (ldr s) (commits s) (cnd s))
| SLose s m k g' :
    (forall t k', In (m, t, k') (acks s) -> (k' <= k)%nat) ->
    g' = mkG (upd (logs (sg s)) (KNode m) (firstn k (nlog s m))) (active (sg s)) ->
    sstep s (mkS g' (tm s) (votes s) (acks s) (acc s) (ldr s) (commits s) (updN (cnd s) m false))
| SCommit s t i e :
    active (sg s) t = true -> nth_error (L s t) i = Some e -> fst e = t ->
    majority (acked s t i) ->
    sstep s (mkS (sg s) (tm s) (votes s) (acks s) (acc s) (ldr s) ((i, e, t) :: commits s) (cnd s)).

Definition sinit (s : sstate) : Prop :=
  init (sg s) /\ (forall t, active (sg s) t = false) /\ votes s = [] /\ acks s = [] /\
  (forall n, acc s n = []) /\ (forall t, ldr s t = None) /\ commits s = [].

Inductive sreach : sstate -> Prop :=
| sreach_init s : sinit s -> sreach s
| sreach_step s s' : sreach s -> sstep s s' -> sreach s'.

(* every step is a step of the log-replication system, or leaves the logs alone *)
Lemma sstep_gstep s s' : sstep s s' -> gstep (sg s) (sg s') \/ sg s' = sg s.
Proof.
  intros H.
  destruct H as [s c t Ht | s v t c Hv Hc Hcn Ha Hu Hutd | s c t g' Hc Hcn Ha Hm Hg Eg
                | s c t x g' Hc Hl Ha Hn Eg | s m t prev cnt pt g' Hm Ha P1 P2 Eg
                | s m t k Hm Ha Hag Hk | s m k g' Hlk Eg | s t i e Ha Hn He Hm]; cbn.
  - right; reflexivity.
  - right; reflexivity.
  - left. exact Hg.
  - left. subst g'. unfold L, nlog in *.
    pose proof (LeaderAppend (sg s) c t x Ha Hn) as G. cbn zeta in G. exact G.
  - left. subst g'. unfold L, nlog in *. eapply FollowerAppend; eassumption.
  - right; reflexivity.
  - left. subst g'. unfold nlog. apply LoseSuffix.
  - right; reflexivity.
Qed.

Lemma sreach_inv s : sreach s -> inv (sg s).
Proof.
  induction 1 as [s I|s s' R IH S].
  - apply inv_init. apply I.
  - destruct (sstep_gstep _ _ S) as [G|E]; [eapply inv_step; eassumption|rewrite E; exact IH].
Qed.


(* ---------- list facts ---------- *)

Definition mono (l : list aent) : Prop :=
  forall i j e1 e2, (i <= j)%nat -> nth_error l i = Some e1 -> nth_error l j = Some e2 -> (fst e1 <= fst e2)%N.
Definition bounded (b : N) (l : list aent) : Prop := forall e, In e l -> (fst e <= b)%N.
Definition below (b : N) (l : list aent) : Prop := forall e, In e l -> (fst e < b)%N.

Lemma In_firstn {A} (l : list A) : forall n x, In x (firstn n l) -> In x l.
Proof.
  induction l as [|y l IH]; intros n x H; destruct n; cbn in *; try contradiction.
  destruct H as [H|H]; [left; exact H|right; eapply IH; exact H].
Qed.

Lemma mono_firstn l n : mono l -> mono (firstn n l).
Proof.
  intros M i j e1 e2 Lij H1 H2.
  assert (A : (i < n)%nat) by (apply nth_error_Some_lt in H1; rewrite firstn_length in H1; lia).
  assert (B : (j < n)%nat) by (apply nth_error_Some_lt in H2; rewrite firstn_length in H2; lia).
  rewrite (nth_error_firstn l n i A) in H1. rewrite (nth_error_firstn l n j B) in H2. exact (M i j e1 e2 Lij H1 H2).
Qed.

Lemma bounded_firstn b l n : bounded b l -> bounded b (firstn n l).
Proof. intros B e H. apply B. eapply In_firstn. exact H. Qed.

Lemma bounded_le b b' l : (b <= b')%N -> bounded b l -> bounded b' l.
Proof. intros Lb B e H. specialize (B e H). lia. Qed.

Lemma below_bounded b l : below b l -> bounded b l.
Proof. intros B e H. specialize (B e H). lia. Qed.

Lemma mono_app_last l t x : mono l -> bounded t l -> mono (l ++ [(t, x)]).
Proof.
  intros M B i j e1 e2 Lij H1 H2.
  destruct (Nat.lt_ge_cases j (length l)) as [Lj|Gj].
  - rewrite nth_error_app1 in H1, H2 by lia. exact (M i j e1 e2 Lij H1 H2).
  - rewrite nth_error_app2 in H2 by lia.
    destruct (j - length l)%nat eqn:D; cbn in H2; [|destruct n; discriminate]. inversion H2; subst; cbn.
    destruct (Nat.lt_ge_cases i (length l)) as [Li|Gi].
    + rewrite nth_error_app1 in H1 by lia. apply B. eapply nth_error_In. exact H1.
    + rewrite nth_error_app2 in H1 by lia.
      destruct (i - length l)%nat eqn:D2; cbn in H1; [|destruct n; discriminate]. inversion H1; subst; cbn. lia.
Qed.

Lemma bounded_app_last l t x : bounded t l -> bounded t (l ++ [(t, x)]).
Proof. intros B e H. apply in_app_or in H. destruct H as [H|[H|[]]]; [apply B; exact H|subst; cbn; lia]. Qed.

Lemma lastT_nth l : l <> [] -> exists e, nth_error l (length l - 1) = Some e /\ lastT l = fst e.
Proof.
  intros NE. unfold lastT. destruct (rev l) as [|e r] eqn:R.
  - exfalso. apply NE. rewrite <- (rev_involutive l), R. reflexivity.
  - exists e. split; [|reflexivity].
    assert (E : l = rev r ++ [e]) by (rewrite <- (rev_involutive l), R; reflexivity).
    rewrite E at 1. rewrite E, app_length. cbn. rewrite nth_error_app2 by lia.
    replace (length (rev r) + 1 - 1 - length (rev r))%nat with 0%nat by lia. reflexivity.
Qed.

Lemma lastT_nil : lastT [] = 0%N.
Proof. reflexivity. Qed.

Lemma mono_lastT l i e : mono l -> nth_error l i = Some e -> (fst e <= lastT l)%N.
Proof.
  intros M H. assert (NE : l <> []) by (intro X; subst; destruct i; discriminate).
  destruct (lastT_nth l NE) as [e' [H' E']]. rewrite E'.
  apply (M i (length l - 1)%nat e e'); [|exact H|exact H']. apply nth_error_Some_lt in H. lia.
Qed.


(* ---------- more about the follower rule ---------- *)

Lemma first_conflict_some ents : forall tail c,
  first_conflict tail ents = Some c ->
  (c < length ents)%nat /\
  (nth_error tail c = None \/
   exists x e, nth_error tail c = Some x /\ nth_error ents c = Some e /\ fst x <> fst e).
Proof.
  induction ents as [|e ents IH]; intros tail c H; cbn in H; [discriminate|].
  destruct tail as [|x tail].
  - inversion H; subst. cbn. split; [lia|left; reflexivity].
  - destruct (N.eqb_spec (fst x) (fst e)) as [E|NE].
    + destruct (first_conflict tail ents) as [c'|] eqn:F; [|discriminate]. inversion H; subst.
      destruct (IH _ _ F) as [A B]. cbn. split; [lia|exact B].
    + inversion H; subst. cbn. split; [lia|right]. exists x, e. auto.
Qed.

Lemma nth_error_skipn {A} (l : list A) : forall p c, nth_error (skipn p l) c = nth_error l (p + c).
Proof.
  induction l as [|x l IH]; intros p c.
  - rewrite skipn_nil. destruct c, (p + 0)%nat, p; reflexivity || (destruct (p + S c)%nat; reflexivity).
  - destruct p; cbn; [reflexivity|apply IH].
Qed.

(* if the follower's log and the leadership's log both agree with a third log up to S i, the
   follower rule keeps that agreement (it cannot truncate at or below i) *)
Lemma fappend_keeps g km t prev cnt pt ref i :
  inv g ->
  prev_term (logs g km) prev = Some pt -> prev_term (logs g (KLead t)) prev = Some pt ->
  agree (S i) (logs g km) ref -> agree (S i) (logs g (KLead t)) ref ->
  (S i <= length (logs g km))%nat ->
  agree (S i) (fappend (logs g km) prev (firstn cnt (skipn prev (logs g (KLead t))))) ref.
Proof.
  intros I P1 P2 A1 A2 LEN.
  pose proof (prev_match_agree g km t prev pt I P1 P2) as A.
  pose proof (first_conflict_spec g km t I cnt prev A) as FC. cbn zeta in FC.
  unfold fappend.
  destruct (first_conflict (skipn prev (logs g km)) (firstn cnt (skipn prev (logs g (KLead t))))) as [c|] eqn:F;
    [|exact A1].
  destruct FC as [AC LC]. destruct (first_conflict_some _ _ _ F) as [CL W].
  (* the conflict position p = prev + c lies above i *)
  assert (P : (i < prev + c)%nat).
  { destruct (Nat.lt_ge_cases i (prev + c)) as [Q|Q]; [exact Q|exfalso].
    assert (EQ : nth_error (logs g km) (prev + c) = nth_error (logs g (KLead t)) (prev + c)).
    { rewrite (agree_nth _ _ _ _ A1) by lia. rewrite (agree_nth _ _ _ _ A2) by lia. reflexivity. }
    rewrite nth_error_skipn in W.
    destruct W as [W|[x [e [W1 [W2 W3]]]]].
    - apply nth_error_None in W. lia.
    - rewrite W1 in EQ.
      assert (E2 : nth_error (logs g (KLead t)) (prev + c) = Some e).
      { rewrite <- nth_error_skipn. rewrite <- (nth_error_firstn _ cnt c); [exact W2|].
        apply nth_error_Some_lt in W2. rewrite firstn_length in W2. lia. }
      rewrite E2 in EQ. inversion EQ; subst. apply W3. reflexivity. }
  (* below the conflict position the result is the old log *)
  unfold agree. rewrite firstn_app.
  rewrite firstn_firstn. replace (Nat.min (S i) (prev + c)) with (S i) by lia.
  rewrite firstn_length. replace (S i - Nat.min (prev + c) (length (logs g km)))%nat with 0%nat by lia.
  cbn. rewrite app_nil_r. exact A1.
Qed.


(* ---------- the invariant ---------- *)

Definition kbound (s : sstate) (k : key) : N := match k with KNode n => tm s n | KLead t => t end.

(* the log invariant of LogMatching for a frozen copy of a log *)
Definition linv (s : sstate) (l : list aent) : Prop :=
  forall i e, nth_error l i = Some e -> active (sg s) (fst e) = true /\ agree (S i) l (L s (fst e)).

Record SInv (s : sstate) : Prop := mkSInv {
  i1 : inv (sg s);
  i2 : forall k, mono (logs (sg s) k) /\ bounded (kbound s k) (logs (sg s) k);
  i3a : forall t c, ldr s t = Some c ->
        active (sg s) t = true /\ majority (voted_for s t c) /\ (t <= tm s c)%N;
  i3b : forall t, active (sg s) t = true -> exists c, ldr s t = Some c;
  i4 : forall r, In r (votes s) ->
       (vr_term r <= tm s (vr_voter r))%N /\ (vr_term r <= tm s (vr_cand r))%N;
  i5 : forall r1 r2, In r1 (votes s) -> In r2 (votes s) ->
       vr_voter r1 = vr_voter r2 -> vr_term r1 = vr_term r2 -> vr_cand r1 = vr_cand r2;
  i6 : forall r, In r (votes s) -> tm s (vr_cand r) = vr_term r -> active (sg s) (vr_term r) = false ->
       cnd s (vr_cand r) = true -> nlog s (vr_cand r) = vr_clog r;
  i7 : forall r, In r (votes s) -> ldr s (vr_term r) = Some (vr_cand r) ->
       agree (length (vr_clog r)) (vr_clog r) (L s (vr_term r)) /\
       (length (vr_clog r) <= length (L s (vr_term r)))%nat;
  i8 : forall r, In r (votes s) ->
       linv s (vr_clog r) /\ linv s (vr_vlog r) /\ mono (vr_clog r) /\ mono (vr_vlog r) /\
       below (vr_term r) (vr_clog r) /\ below (vr_term r) (vr_vlog r) /\ utd (vr_clog r) (vr_vlog r);
  i9 : forall m t k, In (m, t, k) (acks s) ->
       (t <= tm s m)%N /\ active (sg s) t = true /\ (k <= length (L s t))%nat;
  i10 : forall m t k i, In (m, t, k) (acks s) -> (i < k)%nat ->
        (forall s', In s' (acc s m) -> (t < s')%N -> agree (S i) (L s s') (L s t)) ->
        agree (S i) (nlog s m) (L s t);
  i11 : forall r m t k i, In r (votes s) -> In (m, t, k) (acks s) -> m = vr_voter r ->
        (t < vr_term r)%N -> (i < k)%nat ->
        (forall s', active (sg s) s' = true -> (t < s')%N -> (s' < vr_term r)%N -> agree (S i) (L s s') (L s t)) ->
        agree (S i) (vr_vlog r) (L s t);
  i12 : forall n s', In s' (acc s n) -> active (sg s) s' = true /\ (s' <= tm s n)%N;
  i13 : forall i e t, In (i, e, t) (commits s) ->
        active (sg s) t = true /\ nth_error (L s t) i = Some e /\ fst e = t /\ majority (acked s t i) /\
        forall s', active (sg s) s' = true -> (t < s')%N -> agree (S i) (L s s') (L s t);
}.

Lemma sinv_init s : sinit s -> SInv s.
Proof.
  intros (I & A & V & K & C & Ld & Cm).
  assert (LN : forall k, logs (sg s) k = []) by exact I.
  constructor.
  - apply inv_init. exact I.
  - intros k. rewrite LN. split; [intros i j e1 e2 _ H; destruct i; discriminate|intros e []].
  - intros t c H. rewrite Ld in H. discriminate.
  - intros t H. rewrite A in H. discriminate.
  - intros r H. rewrite V in H. destruct H.
  - intros r1 r2 H. rewrite V in H. destruct H.
  - intros r H. rewrite V in H. destruct H.
  - intros r H. rewrite V in H. destruct H.
  - intros r H. rewrite V in H. destruct H.
  - intros m t k H. rewrite K in H. destruct H.
  - intros m t k i H. rewrite K in H. destruct H.
  - intros r m t k i H. rewrite V in H. destruct H.
  - intros n s' H. rewrite C in H. destruct H.
  - intros i e t H. rewrite Cm in H. destruct H.
Qed.


(* ---------- helpers ---------- *)

Lemma updN_same {A} (f : N -> A) k v : updN f k v k = v.
Proof. unfold updN. rewrite N.eqb_refl. reflexivity. Qed.
Lemma updN_other {A} (f : N -> A) k v k' : k' <> k -> updN f k v k' = f k'.
Proof. unfold updN. intros H. destruct (N.eqb_spec k' k); [contradiction|reflexivity]. Qed.
Lemma updN_ge (f : N -> N) k v n : (f k <= v)%N -> (f n <= updN f k v n)%N.
Proof. unfold updN. intros H. destruct (N.eqb_spec n k); [subst; exact H|lia]. Qed.

Lemma maj1_mono l (f g : N -> bool) : (forall x, f x = true -> g x = true) -> maj1 l f -> maj1 l g.
Proof.
  unfold maj1. intros H M.
  assert (LE : (length (filter f l) <= length (filter g l))%nat).
  { clear M. induction l as [|x l IH]; cbn; [lia|].
    destruct (f x) eqn:F; [rewrite (H _ F); cbn; lia|destruct (g x); cbn; lia]. }
  lia.
Qed.

Lemma majority_mono (f g : N -> bool) : (forall x, f x = true -> g x = true) -> majority f -> majority g.
Proof.
  rewrite !majority_spec. intros H [M1 M2]. split; [eapply maj1_mono; eassumption|].
  destruct M2 as [M2|M2]; [left; exact M2|right; eapply maj1_mono; eassumption].
Qed.

Lemma majority_meet (f g : N -> bool) : majority f -> majority g -> exists q, f q = true /\ g q = true.
Proof.
  rewrite !majority_spec. unfold maj1. intros [F _] [G _].
  destruct (QuorumProofs.majorities_intersect f g vs F G) as [q [_ [A B]]]. exists q. auto.
Qed.

Lemma upd_same f k v : upd f k v k = v.
Proof. unfold upd. destruct (key_eqb_spec k k); [reflexivity|contradiction]. Qed.
Lemma upd_other f k v k' : k' <> k -> upd f k v k' = f k'.
Proof. unfold upd. intros H. destruct (key_eqb_spec k' k); [contradiction|reflexivity]. Qed.

(* agreement with a log that got one entry of a higher term appended *)
Lemma agree_snoc_inv i l t x r b :
  agree (S i) (l ++ [(t, x)]) r -> bounded b r -> (b < t)%N -> (S i <= length r)%nat ->
  agree (S i) l r /\ (S i <= length l)%nat.
Proof.
  intros A B LT LEN.
  destruct (Nat.le_gt_cases (S i) (length l)) as [Q|Q].
  - split; [|exact Q]. unfold agree in *. rewrite firstn_app in A.
    replace (S i - length l)%nat with 0%nat in A by lia. cbn in A. rewrite app_nil_r in A. exact A.
  - exfalso.
    assert (LL : (length (l ++ [(t, x)]) >= S i)%nat).
    { apply agree_sym in A. apply (agree_len _ _ _ A). exact LEN. }
    rewrite app_length in LL. cbn in LL. assert (EL : length l = i) by lia.
    assert (N1 : nth_error (l ++ [(t, x)]) i = Some (t, x)).
    { rewrite nth_error_app2 by lia. replace (i - length l)%nat with 0%nat by lia. reflexivity. }
    assert (N2 : nth_error r i = Some (t, x)) by (rewrite <- (agree_nth _ _ _ i A) by lia; exact N1).
    clear N1. rename N2 into N1.
    apply nth_error_In in N1. specialize (B _ N1). cbn in B. lia.
Qed.

Lemma agree_grow_l i l x r : agree (S i) l r -> (S i <= length r)%nat -> agree (S i) (l ++ x) r.
Proof.
  intros A LEN. apply agree_sym. apply agree_app_r; [apply agree_sym; exact A|].
  apply agree_sym in A. apply (agree_len _ _ _ A). exact LEN.
Qed.


(* ---------- preservation, step by step ---------- *)

Lemma pres_campaign s c t :
  SInv s -> (tm s c < t)%N ->
  SInv (mkS (sg s) (updN (tm s) c t) (votes s) (acks s) (acc s) (ldr s) (commits s) (updN (cnd s) c true)).
Proof.
  intros I Ht. assert (GE : forall n, (tm s n <= updN (tm s) c t n)%N) by (intros n; apply updN_ge; lia).
  constructor; cbn.
  - exact (i1 s I).
  - intros k. destruct (i2 s I k) as [M B]. split; [exact M|].
    destruct k as [n|t']; cbn in *; [eapply bounded_le; [apply GE|exact B]|exact B].
  - intros t' c' H. destruct (i3a s I _ _ H) as (A & M & T). repeat split; auto. specialize (GE c'). lia.
  - exact (i3b s I).
  - intros r H. destruct (i4 s I r H) as [A B]. pose proof (GE (vr_voter r)). pose proof (GE (vr_cand r)). split; lia.
  - exact (i5 s I).
  - intros r H T A K. destruct (N.eqb_spec (vr_cand r) c) as [E|NE].
    + exfalso. rewrite E, updN_same in T. destruct (i4 s I r H) as [_ B]. rewrite E in B. lia.
    + rewrite updN_other in T by exact NE. rewrite updN_other in K by exact NE. exact (i6 s I r H T A K).
  - exact (i7 s I).
  - exact (i8 s I).
  - intros m t' k H. destruct (i9 s I _ _ _ H) as (A & B & C). repeat split; auto. specialize (GE m). lia.
  - exact (i10 s I).
  - exact (i11 s I).
  - intros n s' H. destruct (i12 s I _ _ H) as [A B]. split; [exact A|]. specialize (GE n). lia.
  - exact (i13 s I).
Qed.

Lemma voted_for_cons s r t c v :
  existsb (fun r => N.eqb (vr_voter r) v && N.eqb (vr_term r) t && N.eqb (vr_cand r) c) (votes s) = true ->
  existsb (fun r => N.eqb (vr_voter r) v && N.eqb (vr_term r) t && N.eqb (vr_cand r) c) (r :: votes s) = true.
Proof. intros H. cbn. rewrite H. apply orb_true_r. Qed.

Lemma pres_vote s v t c :
  SInv s ->
  (tm s v <= t)%N -> tm s c = t -> active (sg s) t = false ->
  (forall r, In r (votes s) -> vr_voter r = v -> vr_term r = t -> vr_cand r = c) ->
  utd (nlog s c) (nlog s v) ->
  SInv (mkS (sg s) (updN (tm s) v t) (mkV v t c (nlog s c) (nlog s v) :: votes s) (acks s) (acc s) (ldr s) (commits s) (cnd s)).
Proof.
  intros I Hv Hc Ha Hu Hutd.
  assert (GE : forall n, (tm s n <= updN (tm s) v t n)%N) by (intros n; apply updN_ge; exact Hv).
  set (r0 := mkV v t c (nlog s c) (nlog s v)).
  assert (NOT : forall k i e, nth_error (logs (sg s) k) i = Some e -> fst e <> t).
  { intros k i e H E. destruct (i1 s I _ _ _ H) as [A _]. rewrite E in A. congruence. }
  constructor; cbn.
  - exact (i1 s I).
  - intros k. destruct (i2 s I k) as [M B]. split; [exact M|].
    destruct k as [n|t']; cbn in *; [eapply bounded_le; [apply GE|exact B]|exact B].
  - intros t' c' H. destruct (i3a s I _ _ H) as (A & M & T). repeat split; auto.
    + eapply majority_mono; [|exact M]. intros x X. unfold voted_for in *. cbn [existsb votes]. apply orb_true_iff. right. exact X.
    + specialize (GE c'). lia.
  - exact (i3b s I).
  - intros r [E|H].
    + subst r. cbn. rewrite updN_same. split; [lia|]. unfold updN. destruct (N.eqb_spec c v); lia.
    + destruct (i4 s I r H) as [A B]. pose proof (GE (vr_voter r)). pose proof (GE (vr_cand r)). split; lia.
  - intros r1 r2 [E1|H1] [E2|H2] EV ET; subst; cbn in *; try reflexivity.
    + symmetry. apply (Hu r2 H2); [symmetry; exact EV|symmetry; exact ET].
    + apply (Hu r1 H1); assumption.
    + exact (i5 s I _ _ H1 H2 EV ET).
  - intros r [E|H] T A K.
    + subst r. reflexivity.
    + apply (i6 s I r H); [|exact A|exact K].
      destruct (N.eqb_spec (vr_cand r) v) as [E|NE].
      * rewrite E, updN_same in T. destruct (i4 s I r H) as [_ B]. rewrite E in B |- *. lia.
      * rewrite updN_other in T by exact NE. exact T.
  - intros r [E|H] LD.
    + subst r. cbn in LD. destruct (i3a s I _ _ LD) as (A & _). congruence.
    + exact (i7 s I r H LD).
  - intros r [E|H]; [|exact (i8 s I r H)]. subst r. cbn.
    assert (BL : forall n, (tm s n <= t)%N -> below t (nlog s n)).
    { intros n Ln e He. destruct (In_nth_error _ _ He) as [i Hi].
      pose proof (NOT _ _ _ Hi) as NE. destruct (i2 s I (KNode n)) as [_ B]. specialize (B _ He). cbn in B. lia. }
    refine (conj _ (conj _ (conj _ (conj _ (conj _ (conj _ _)))))).
    + intros i e H. exact (i1 s I _ _ _ H).
    + intros i e H. exact (i1 s I _ _ _ H).
    + exact (proj1 (i2 s I (KNode c))).
    + exact (proj1 (i2 s I (KNode v))).
    + apply BL. lia.
    + apply BL. exact Hv.
    + exact Hutd.
  - intros m t' k H. destruct (i9 s I _ _ _ H) as (A & B & C). repeat split; auto. specialize (GE m). lia.
  - exact (i10 s I).
  - intros r m t0 k i [E|H] HA EM LT LK P.
    + subst r. cbn in *. subst m.
      apply (i10 s I v t0 k i HA LK). intros s' IN LT'.
      destruct (i12 s I _ _ IN) as [AC LE]. apply P; [exact AC|exact LT'|].
      assert (s' <> t) by (intro X; subst; congruence). lia.
    + exact (i11 s I r m t0 k i H HA EM LT LK P).
  - intros n s' H. destruct (i12 s I _ _ H) as [A B]. split; [exact A|]. specialize (GE n). lia.
  - exact (i13 s I).
Qed.

Lemma pres_ack s m t k :
  SInv s -> tm s m = t -> active (sg s) t = true -> agree k (nlog s m) (L s t) -> (k <= length (nlog s m))%nat ->
  SInv (mkS (sg s) (tm s) (votes s) ((m, t, k) :: acks s) (acc s) (ldr s) (commits s) (cnd s)).
Proof.
  intros I Hm Ha Hag Hk. constructor; cbn.
  - exact (i1 s I).
  - exact (i2 s I).
  - exact (i3a s I).
  - exact (i3b s I).
  - exact (i4 s I).
  - exact (i5 s I).
  - exact (i6 s I).
  - exact (i7 s I).
  - exact (i8 s I).
  - intros m' t' k' [E|H]; [|exact (i9 s I _ _ _ H)]. inversion E; subst. repeat split; [lia|exact Ha|].
    apply (agree_len _ _ _ Hag). exact Hk.
  - intros m' t' k' i [E|H] LK P; [|exact (i10 s I _ _ _ _ H LK P)]. inversion E; subst.
    eapply agree_le; [|exact Hag]. lia.
  - intros r m' t' k' i H [E|HA] EM LT LK P; [|exact (i11 s I r m' t' k' i H HA EM LT LK P)].
    inversion E; subst. exfalso. destruct (i4 s I r H) as [A _]. lia.
  - exact (i12 s I).
  - intros i e t' H. destruct (i13 s I _ _ _ H) as (A & B & C & M & D). repeat split; auto.
    eapply majority_mono; [|exact M]. intros x X. unfold acked in *. cbn [existsb acks]. apply orb_true_iff. right. exact X.
Qed.


Lemma fappend_shape g km t prev cnt pt :
  inv g ->
  prev_term (logs g km) prev = Some pt -> prev_term (logs g (KLead t)) prev = Some pt ->
  let l' := fappend (logs g km) prev (firstn cnt (skipn prev (logs g (KLead t)))) in
  l' = logs g km \/ (exists q, l' = firstn q (logs g (KLead t))).
Proof. intros I P1 P2. exact (fappend_result g km t prev cnt pt I P1 P2). Qed.

Lemma pres_follower_append s m t prev cnt pt :
  SInv s ->
  (tm s m <= t)%N -> active (sg s) t = true ->
  prev_term (nlog s m) prev = Some pt -> prev_term (L s t) prev = Some pt ->
  SInv (mkS (mkG (upd (logs (sg s)) (KNode m) (fappend (nlog s m) prev (firstn cnt (skipn prev (L s t))))) (active (sg s)))
            (updN (tm s) m t) (votes s) (acks s) (updN (acc s) m (t :: acc s m)) (ldr s) (commits s) (updN (cnd s) m false)).
Proof.
  intros I Hm Ha P1 P2.
  assert (GE : forall n, (tm s n <= updN (tm s) m t n)%N) by (intros n; apply updN_ge; exact Hm).
  set (l' := fappend (nlog s m) prev (firstn cnt (skipn prev (L s t)))).
  assert (G : gstep (sg s) (mkG (upd (logs (sg s)) (KNode m) l') (active (sg s)))).
  { unfold l', nlog, L. eapply FollowerAppend; eassumption. }
  assert (SH : l' = nlog s m \/ exists q, l' = firstn q (L s t)).
  { unfold l', nlog, L. apply (fappend_shape (sg s) (KNode m) t prev cnt pt (i1 s I) P1 P2). }
  (* leadership logs are untouched *)
  assert (LL : forall t', upd (logs (sg s)) (KNode m) l' (KLead t') = L s t') by (intros; apply upd_other; discriminate).
  assert (NL : forall n, n <> m -> upd (logs (sg s)) (KNode m) l' (KNode n) = nlog s n)
    by (intros n NE; apply upd_other; congruence).
  assert (ML : upd (logs (sg s)) (KNode m) l' (KNode m) = l') by apply upd_same.
  constructor; unfold L, nlog in *; cbn [sg tm votes acks acc ldr commits cnd logs active].
  - eapply inv_step; [exact (i1 s I)|exact G].
  - intros k. destruct k as [n|t']; cbn [kbound tm].
    + destruct (N.eq_dec n m) as [->|NE].
      * rewrite ML, updN_same. destruct SH as [E|[q E]]; rewrite E.
        -- destruct (i2 s I (KNode m)) as [M B]. split; [exact M|]. eapply bounded_le; [exact Hm|exact B].
        -- destruct (i2 s I (KLead t)) as [M B]. split; [apply mono_firstn; exact M|apply bounded_firstn; exact B].
      * rewrite (NL n NE), (updN_other _ _ _ _ NE). exact (i2 s I (KNode n)).
    + rewrite LL. exact (i2 s I (KLead t')).
  - intros t' c H. destruct (i3a s I _ _ H) as (A & M & T). repeat split; auto. specialize (GE c). lia.
  - exact (i3b s I).
  - intros r H. destruct (i4 s I r H) as [A B]. pose proof (GE (vr_voter r)). pose proof (GE (vr_cand r)). split; lia.
  - exact (i5 s I).
  - intros r H T A K. destruct (N.eq_dec (vr_cand r) m) as [E|NE].
    + exfalso. rewrite E, updN_same in T. rewrite <- T in A. congruence.
    + rewrite (NL _ NE). rewrite (updN_other _ _ _ _ NE) in T. rewrite (updN_other _ _ _ _ NE) in K. exact (i6 s I r H T A K).
  - intros r H LD. rewrite LL. exact (i7 s I r H LD).
  - intros r H. destruct (i8 s I r H) as (A & B & C). refine (conj _ (conj _ C)).
    + intros i e Hi. unfold L; cbn [sg logs active]. rewrite LL. exact (A i e Hi).
    + intros i e Hi. unfold L; cbn [sg logs active]. rewrite LL. exact (B i e Hi).
  - intros m' t' k H. destruct (i9 s I _ _ _ H) as (A & B & C). rewrite LL. repeat split; auto. specialize (GE m'). lia.
  - intros m' t' k i H LK P. rewrite LL.
    destruct (N.eq_dec m' m) as [->|NE].
    + rewrite ML. rewrite updN_same in P.
      destruct (i9 s I _ _ _ H) as (TT & AT & KL). unfold L, nlog in *.
      assert (OLD : agree (S i) (logs (sg s) (KNode m)) (logs (sg s) (KLead t'))).
      { apply (i10 s I m t' k i H LK). intros s' IN LT. specialize (P s' (or_intror IN) LT). rewrite !LL in P. exact P. }
      assert (LEN : (S i <= length (logs (sg s) (KNode m)))%nat).
      { apply agree_sym in OLD. apply (agree_len _ _ _ OLD). lia. }
      assert (AT2 : agree (S i) (logs (sg s) (KLead t)) (logs (sg s) (KLead t'))).
      { destruct (N.eq_dec t t') as [->|NT]; [apply agree_refl|].
        assert (LT : (t' < t)%N) by lia. specialize (P t (or_introl eq_refl) LT). rewrite !LL in P. exact P. }
      unfold l'. apply (fappend_keeps (sg s) (KNode m) t prev cnt pt _ i (i1 s I) P1 P2 OLD AT2 LEN).
    + rewrite (NL _ NE). rewrite (updN_other _ _ _ _ NE) in P.
      apply (i10 s I m' t' k i H LK). intros s' IN LT. specialize (P s' IN LT). rewrite !LL in P. exact P.
  - intros r m' t' k i H HA EM LT LK P. rewrite LL.
    apply (i11 s I r m' t' k i H HA EM LT LK). intros s' AS L1 L2. specialize (P s' AS L1 L2). rewrite !LL in P. exact P.
  - intros n s' H. destruct (N.eq_dec n m) as [->|NE].
    + rewrite updN_same in H. rewrite updN_same. destruct H as [E|H]; [subst; split; [exact Ha|lia]|].
      destruct (i12 s I _ _ H) as [A B]. split; [exact A|lia].
    + rewrite (updN_other _ _ _ _ NE) in H. rewrite (updN_other _ _ _ _ NE). exact (i12 s I _ _ H).
  - intros i e t' H. destruct (i13 s I _ _ _ H) as (A & B & C & M & D). rewrite LL. repeat split; auto;
    try (intros s' AS LT; rewrite LL; exact (D s' AS LT)).
Qed.


Lemma pres_leader_append s c t x :
  SInv s ->
  tm s c = t -> ldr s t = Some c -> active (sg s) t = true -> nlog s c = L s t ->
  SInv (mkS (mkG (upd (upd (logs (sg s)) (KLead t) (L s t ++ [(t, x)])) (KNode c) (L s t ++ [(t, x)])) (active (sg s)))
            (tm s) (votes s) (acks s) (acc s) (ldr s) (commits s) (cnd s)).
Proof.
  intros I Hc Hl Ha Hn.
  set (l := L s t ++ [(t, x)]).
  set (lg := upd (upd (logs (sg s)) (KLead t) l) (KNode c) l).
  assert (G : gstep (sg s) (mkG lg (active (sg s)))).
  { pose proof (LeaderAppend (sg s) c t x Ha Hn) as G. cbn zeta in G. exact G. }
  assert (LT : lg (KLead t) = l) by (unfold lg; rewrite upd_other by discriminate; apply upd_same).
  assert (LO : forall t', t' <> t -> lg (KLead t') = L s t').
  { intros t' NE. unfold lg. rewrite upd_other by discriminate. rewrite upd_other by congruence. reflexivity. }
  assert (NC : lg (KNode c) = l) by (unfold lg; apply upd_same).
  assert (NO : forall n, n <> c -> lg (KNode n) = nlog s n).
  { intros n NE. unfold lg. rewrite upd_other by congruence. rewrite upd_other by discriminate. reflexivity. }
  assert (B2 : bounded t (L s t)) by exact (proj2 (i2 s I (KLead t))).
  assert (M2 : mono (L s t)) by exact (proj1 (i2 s I (KLead t))).
  (* agreement with a leadership log is stable when that log, or the other side, grows *)
  assert (GROW : forall t' a i, agree (S i) a (L s t') -> (S i <= length (L s t'))%nat -> agree (S i) a (lg (KLead t'))).
  { intros t' a i A LEN. destruct (N.eq_dec t' t) as [->|NE]; [|rewrite (LO _ NE); exact A].
    rewrite LT. unfold l. apply agree_app_r; assumption. }
  (* the reverse: agreement stated in the new state gives agreement in the old one *)
  assert (BACK : forall s' t0 i, (t0 < s')%N -> (S i <= length (L s t0))%nat ->
            agree (S i) (lg (KLead s')) (lg (KLead t0)) -> agree (S i) (L s s') (L s t0)).
  { intros s' t0 i LT0 LEN A.
    assert (E0 : agree (S i) (lg (KLead t0)) (L s t0)).
    { destruct (N.eq_dec t0 t) as [->|NE]; [rewrite LT; unfold l; apply agree_app_l; exact LEN|rewrite (LO _ NE); apply agree_refl]. }
    assert (A' : agree (S i) (lg (KLead s')) (L s t0)) by (eapply agree_trans; eassumption).
    destruct (N.eq_dec s' t) as [->|NE]; [|rewrite (LO _ NE) in A'; exact A'].
    rewrite LT in A'. unfold l in A'.
    destruct (agree_snoc_inv i (L s t) t x (L s t0) t0 A' (proj2 (i2 s I (KLead t0))) LT0 LEN) as [R _]. exact R. }
  constructor; unfold L, nlog; cbn [sg tm votes acks acc ldr commits cnd logs active]; fold lg.
  - eapply inv_step; [exact (i1 s I)|exact G].
  - intros k. destruct k as [n|t']; cbn [kbound tm].
    + destruct (N.eq_dec n c) as [->|NE].
      * rewrite NC. unfold l. rewrite Hc. split; [apply mono_app_last; assumption|apply bounded_app_last; exact B2].
      * rewrite (NO n NE). exact (i2 s I (KNode n)).
    + destruct (N.eq_dec t' t) as [->|NE].
      * rewrite LT. unfold l. split; [apply mono_app_last; assumption|apply bounded_app_last; exact B2].
      * rewrite (LO t' NE). exact (i2 s I (KLead t')).
  - exact (i3a s I).
  - exact (i3b s I).
  - exact (i4 s I).
  - exact (i5 s I).
  - intros r H T A K. destruct (N.eq_dec (vr_cand r) c) as [E|NE].
    + exfalso. rewrite E in T. rewrite <- T, Hc in A. congruence.
    + rewrite (NO _ NE). exact (i6 s I r H T A K).
  - intros r H LD. destruct (i7 s I r H LD) as [A B]. unfold L; cbn [sg logs]; fold lg.
    destruct (N.eq_dec (vr_term r) t) as [E|NE].
    + rewrite E in *. rewrite LT. unfold l. split; [apply agree_app_r; assumption|rewrite app_length; lia].
    + rewrite (LO _ NE). split; assumption.
  - intros r H. destruct (i8 s I r H) as (A & B & C). refine (conj _ (conj _ C)).
    + intros i e Hi. destruct (A i e Hi) as [A1 A2]. unfold L; cbn [sg logs active]; fold lg. split; [exact A1|].
      apply GROW; [exact A2|]. apply (agree_len _ _ _ A2). apply nth_error_Some_lt in Hi. lia.
    + intros i e Hi. destruct (B i e Hi) as [A1 A2]. unfold L; cbn [sg logs active]; fold lg. split; [exact A1|].
      apply GROW; [exact A2|]. apply (agree_len _ _ _ A2). apply nth_error_Some_lt in Hi. lia.
  - intros m t' k H. destruct (i9 s I _ _ _ H) as (A & B & C). unfold L; cbn [sg logs]; fold lg. repeat split; auto.
    destruct (N.eq_dec t' t) as [->|NE]; [rewrite LT; unfold l; rewrite app_length; unfold L in *; cbn [length]; lia|rewrite (LO _ NE); exact C].
  - intros m t0 k i H LK P. unfold L, nlog in *; cbn [sg logs] in *; fold lg in P |- *.
    destruct (i9 s I _ _ _ H) as (TT & AT & KL). unfold L in KL.
    assert (LEN : (S i <= length (logs (sg s) (KLead t0)))%nat) by lia.
    assert (OLD : agree (S i) (logs (sg s) (KNode m)) (logs (sg s) (KLead t0))).
    { apply (i10 s I m t0 k i H LK). intros s' IN LT0. apply BACK; [exact LT0|exact LEN|]. exact (P s' IN LT0). }
    destruct (N.eq_dec m c) as [->|NE].
    + rewrite NC. apply GROW; [|exact LEN]. unfold l. apply agree_grow_l; [|exact LEN].
      unfold nlog in Hn. rewrite <- Hn. exact OLD.
    + rewrite (NO _ NE). apply GROW; [exact OLD|exact LEN].
  - intros r m t0 k i H HA EM LT0 LK P. unfold L in *; cbn [sg logs active] in *; fold lg in P |- *.
    destruct (i9 s I _ _ _ HA) as (TT & AT & KL). unfold L in KL.
    assert (LEN : (S i <= length (logs (sg s) (KLead t0)))%nat) by lia.
    apply GROW; [|exact LEN].
    apply (i11 s I r m t0 k i H HA EM LT0 LK). intros s' AS L1 L2. apply BACK; [exact L1|exact LEN|]. exact (P s' AS L1 L2).
  - exact (i12 s I).
  - intros i e t0 H. destruct (i13 s I _ _ _ H) as (A & B & C & M & D).
    unfold L in *; cbn [sg logs active] in *; fold lg.
    assert (LEN : (S i <= length (logs (sg s) (KLead t0)))%nat) by (apply nth_error_Some_lt in B; lia).
    refine (conj A (conj _ (conj C (conj M _)))).
    + destruct (N.eq_dec t0 t) as [->|NE]; [|rewrite (LO _ NE); exact B].
      rewrite LT. unfold l. rewrite nth_error_app1 by (apply nth_error_Some_lt in B; exact B). exact B.
    + intros s' AS LT0. specialize (D s' AS LT0).
      apply GROW; [|exact LEN].
      destruct (N.eq_dec s' t) as [->|NE]; [|rewrite (LO _ NE); exact D].
      rewrite LT. unfold l. apply agree_grow_l; assumption.
Qed.


(* ---------- the heart of Leader Completeness ---------- *)

(* a frozen log satisfying the log invariant, whose last term is at least the term t0 of a
   committed entry at position i (and which is long enough when that term is exactly t0),
   contains the committed prefix *)
Lemma frozen_log_has s l t0 i e :
  SInv s -> linv s l -> l <> [] ->
  nth_error (L s t0) i = Some e -> fst e = t0 ->
  (t0 <= lastT l)%N ->
  (lastT l = t0 -> (S i <= length l)%nat) ->
  (active (sg s) (lastT l) = true -> (t0 < lastT l)%N -> agree (S i) (L s (lastT l)) (L s t0)) ->
  agree (S i) l (L s t0).
Proof.
  intros I LI NE HN FE LE LEN D.
  destruct (lastT_nth l NE) as [e' [H' E']].
  destruct (LI _ _ H') as [AC AG].
  assert (LP : (0 < length l)%nat) by (destruct l; [contradiction|cbn; lia]).
  replace (S (length l - 1)) with (length l) in AG by lia.
  rewrite <- E' in *.
  destruct (N.eq_dec (lastT l) t0) as [EQ|NEQ].
  - rewrite EQ in AG. eapply agree_le; [|exact AG]. apply LEN. exact EQ.
  - assert (LT : (t0 < lastT l)%N) by lia.
    pose proof (D AC LT) as D'.
    assert (SL : (S i <= length l)%nat).
    { destruct (Nat.le_gt_cases (S i) (length l)) as [Q|Q]; [exact Q|exfalso].
      assert (N1 : nth_error (L s (lastT l)) (length l - 1) = Some e').
      { rewrite <- (agree_nth _ _ _ (length l - 1)%nat AG) by lia. exact H'. }
      assert (N2 : nth_error (L s (lastT l)) i = Some e).
      { rewrite (agree_nth _ _ _ i D') by lia. exact HN. }
      pose proof (proj1 (i2 s I (KLead (lastT l))) (length l - 1)%nat i e' e ltac:(lia) N1 N2) as MM.
      rewrite <- E' in MM. lia. }
    eapply agree_trans; [|exact D']. eapply agree_le; [|exact AG]. exact SL.
Qed.

Lemma below_lastT b l : l <> [] -> below b l -> (lastT l < b)%N.
Proof.
  intros NE B. destruct (lastT_nth l NE) as [e [H E]]. rewrite E. apply B. eapply nth_error_In. exact H.
Qed.

(* a vote of term [vr_term r] by a node that acknowledged position i of leadership t0 < that
   term: if every leadership strictly between carries the entry, so does the candidate's log *)
Lemma vote_carries s r q t0 k i e :
  SInv s -> In r (votes s) -> In (q, t0, k) (acks s) -> q = vr_voter r -> (i < k)%nat ->
  (t0 < vr_term r)%N -> nth_error (L s t0) i = Some e -> fst e = t0 ->
  (forall s', active (sg s) s' = true -> (t0 < s')%N -> (s' < vr_term r)%N -> agree (S i) (L s s') (L s t0)) ->
  agree (S i) (vr_clog r) (L s t0).
Proof.
  intros I INR INA EQ LK LT HN FE D.
  assert (VL : agree (S i) (vr_vlog r) (L s t0)) by exact (i11 s I r q t0 k i INR INA EQ LT LK D).
  destruct (i8 s I r INR) as (LC & LV & MC & MV & BC & BV & U).
  assert (NV : nth_error (vr_vlog r) i = Some e) by (rewrite (agree_nth _ _ _ i VL) by lia; exact HN).
  assert (T0 : (t0 <= lastT (vr_vlog r))%N) by (rewrite <- FE; eapply mono_lastT; eassumption).
  assert (LV' : (S i <= length (vr_vlog r))%nat) by (apply nth_error_Some_lt in NV; lia).
  assert (NE : vr_clog r <> []).
  { destruct U as [U|[U1 U2]]; intro X; rewrite X in *; [rewrite lastT_nil in U; lia|cbn in U2; lia]. }
  pose proof (below_lastT _ _ NE BC) as BL.
  apply (frozen_log_has s (vr_clog r) t0 i e I LC NE HN FE).
  - destruct U as [U|[U1 U2]]; lia.
  - intro X. destruct U as [U|[U1 U2]]; lia.
  - intros AS L1. exact (D _ AS L1 BL).
Qed.

Lemma acked_voted_meet s t0 i t c :
  majority (acked s t0 i) -> majority (voted_for s t c) ->
  exists q k r, In (q, t0, k) (acks s) /\ (i < k)%nat /\ In r (votes s) /\ vr_voter r = q /\ vr_term r = t /\ vr_cand r = c.
Proof.
  intros MA Hm.
  destruct (majority_meet _ _ MA Hm) as [q [QA QV]].
  unfold acked in QA. apply existsb_exists in QA. destruct QA as [[[n t'] k] [INA QA]].
  apply andb_true_iff in QA. destruct QA as [QA LK]. apply andb_true_iff in QA. destruct QA as [E1 E2].
  apply N.eqb_eq in E1. apply N.eqb_eq in E2. apply Nat.ltb_lt in LK. subst n t'.
  unfold voted_for in QV. apply existsb_exists in QV. destruct QV as [r [INR QV]].
  apply andb_true_iff in QV. destruct QV as [QV E3]. apply andb_true_iff in QV. destruct QV as [E4 E5].
  apply N.eqb_eq in E3. apply N.eqb_eq in E4. apply N.eqb_eq in E5.
  exists q, k, r. auto 10.
Qed.

Lemma cand_has_committed s c t i e t0 :
  SInv s -> tm s c = t -> cnd s c = true -> active (sg s) t = false -> majority (voted_for s t c) ->
  In (i, e, t0) (commits s) -> (t0 < t)%N -> agree (S i) (nlog s c) (L s t0).
Proof.
  intros I Hc Hcn Ha Hm HC LT.
  destruct (i13 s I _ _ _ HC) as (A0 & HN & FE & MA & D).
  destruct (acked_voted_meet s t0 i t c MA Hm) as (q & k & r & INA & LK & INR & E4 & E5 & E3).
  assert (CL : nlog s c = vr_clog r).
  { rewrite <- E3. apply (i6 s I r INR); [rewrite E3, E5; exact Hc|rewrite E5; exact Ha|rewrite E3; exact Hcn]. }
  rewrite CL.
  apply (vote_carries s r q t0 k i e I INR INA (eq_sym E4) LK); try assumption; [rewrite E5; exact LT|].
  intros s' AS L1 _. exact (D s' AS L1).
Qed.

Lemma pres_become_leader s c t :
  SInv s ->
  tm s c = t -> cnd s c = true -> active (sg s) t = false -> majority (voted_for s t c) ->
  SInv (mkS (mkG (upd (logs (sg s)) (KLead t) (nlog s c)) (fun t' => if N.eqb t' t then true else active (sg s) t'))
            (tm s) (votes s) (acks s) (updN (acc s) c (t :: acc s c)) (updN (ldr s) t (Some c)) (commits s) (cnd s)).
Proof.
  intros I Hc Hcn Ha Hm.
  set (lg := upd (logs (sg s)) (KLead t) (nlog s c)).
  set (ac := fun t' => if N.eqb t' t then true else active (sg s) t').
  assert (G : gstep (sg s) (mkG lg ac)) by (apply (BecomeLeader (sg s) c t Ha)).
  assert (LT : lg (KLead t) = nlog s c) by apply upd_same.
  assert (LO : forall t', t' <> t -> lg (KLead t') = L s t') by (intros t' NE; apply upd_other; congruence).
  assert (NL : forall n, lg (KNode n) = nlog s n) by (intros n; apply upd_other; discriminate).
  assert (AT : ac t = true) by (unfold ac; rewrite N.eqb_refl; reflexivity).
  assert (AO : forall t', t' <> t -> ac t' = active (sg s) t').
  { intros t' NE. unfold ac. destruct (N.eqb_spec t' t); [contradiction|reflexivity]. }
  assert (AM : forall t', active (sg s) t' = true -> ac t' = true /\ t' <> t).
  { intros t' H. assert (t' <> t) by (intro X; subst; congruence). rewrite AO by assumption. auto. }
  assert (ACT : forall t', ac t' = true -> t' <> t -> active (sg s) t' = true).
  { intros t' H NE. rewrite AO in H by exact NE. exact H. }
  assert (LN : ldr s t = None).
  { destruct (ldr s t) as [c'|] eqn:E; [|reflexivity]. destruct (i3a s I _ _ E) as [A _]. congruence. }
  constructor; unfold L, nlog; cbn [sg tm votes acks acc ldr commits cnd logs active]; fold lg; fold ac.
  - eapply inv_step; [exact (i1 s I)|exact G].
  - intros k. destruct k as [n|t']; cbn [kbound tm].
    + rewrite NL. exact (i2 s I (KNode n)).
    + destruct (N.eq_dec t' t) as [->|NE].
      * rewrite LT. rewrite <- Hc. exact (i2 s I (KNode c)).
      * rewrite (LO _ NE). exact (i2 s I (KLead t')).
  - intros t' c' H. destruct (N.eq_dec t' t) as [->|NE].
    + rewrite updN_same in H. inversion H; subst c'. refine (conj AT (conj Hm _)). lia.
    + rewrite (updN_other _ _ _ _ NE) in H. destruct (i3a s I _ _ H) as (A & M & T).
      refine (conj _ (conj M T)). apply AM. exact A.
  - intros t' H. destruct (N.eq_dec t' t) as [->|NE].
    + exists c. apply updN_same.
    + rewrite (updN_other _ _ _ _ NE). apply (i3b s I). apply ACT; assumption.
  - exact (i4 s I).
  - exact (i5 s I).
  - intros r H T A K. rewrite NL. apply (i6 s I r H T); [|exact K].
    destruct (N.eq_dec (vr_term r) t) as [E|NE]; [rewrite E in A; congruence|]. rewrite AO in A by exact NE. exact A.
  - intros r H LD. destruct (N.eq_dec (vr_term r) t) as [E|NE].
    + rewrite E in *. rewrite updN_same in LD. inversion LD as [EC].
      rewrite LT. assert (CL : nlog s c = vr_clog r).
      { rewrite EC. apply (i6 s I r H); [rewrite <- EC, E; exact Hc|rewrite E; exact Ha|rewrite <- EC; exact Hcn]. }
      rewrite CL. split; [apply agree_refl|lia].
    + rewrite (updN_other _ _ _ _ NE) in LD. rewrite (LO _ NE). exact (i7 s I r H LD).
  - intros r H. destruct (i8 s I r H) as (A & B & C). refine (conj _ (conj _ C)).
    + intros i e Hi. destruct (A i e Hi) as [A1 A2]. unfold L; cbn [sg logs active]; fold lg; fold ac.
      destruct (AM _ A1) as [X Y]. rewrite (LO _ Y). split; assumption.
    + intros i e Hi. destruct (B i e Hi) as [A1 A2]. unfold L; cbn [sg logs active]; fold lg; fold ac.
      destruct (AM _ A1) as [X Y]. rewrite (LO _ Y). split; assumption.
  - intros m t' k H. destruct (i9 s I _ _ _ H) as (A & B & C). destruct (AM _ B) as [X Y].
    rewrite (LO _ Y). repeat split; assumption.
  - intros m t0 k i H LK P. rewrite NL.
    destruct (i9 s I _ _ _ H) as (A & B & C). destruct (AM _ B) as [X Y]. rewrite (LO _ Y).
    apply (i10 s I m t0 k i H LK). intros s' IN LT0.
    destruct (i12 s I _ _ IN) as [AS _]. destruct (AM _ AS) as [X' Y'].
    assert (IN' : In s' (updN (acc s) c (t :: acc s c) m)).
    { destruct (N.eq_dec m c) as [->|NE]; [rewrite updN_same; right; exact IN|rewrite (updN_other _ _ _ _ NE); exact IN]. }
    specialize (P s' IN' LT0). rewrite (LO _ Y'), (LO _ Y) in P. exact P.
  - intros r m t0 k i H HA EM LT0 LK P.
    destruct (i9 s I _ _ _ HA) as (A & B & C). destruct (AM _ B) as [X Y]. rewrite (LO _ Y).
    apply (i11 s I r m t0 k i H HA EM LT0 LK). intros s' AS L1 L2.
    destruct (AM _ AS) as [X' Y']. specialize (P s' X' L1 L2). rewrite (LO _ Y'), (LO _ Y) in P. exact P.
  - intros n s' H. destruct (N.eq_dec n c) as [->|NE].
    + rewrite updN_same in H. destruct H as [E|H]; [subst s'; split; [exact AT|lia]|].
      destruct (i12 s I _ _ H) as [A B]. split; [apply AM; exact A|exact B].
    + rewrite (updN_other _ _ _ _ NE) in H. destruct (i12 s I _ _ H) as [A B]. split; [apply AM; exact A|exact B].
  - intros i e t0 H. destruct (i13 s I _ _ _ H) as (A & B & C & M & D).
    destruct (AM _ A) as [X Y]. rewrite (LO _ Y).
    refine (conj X (conj B (conj C (conj M _)))).
    intros s' AS LT0. destruct (N.eq_dec s' t) as [->|NE].
    + rewrite LT. exact (cand_has_committed s c t i e t0 I Hc Hcn Ha Hm H LT0).
    + rewrite (LO _ NE). apply D; [apply ACT; assumption|exact LT0].
Qed.


(* committing: every later leadership carries the entry (induction over the later terms) *)
Lemma commit_carried s t i e :
  SInv s -> active (sg s) t = true -> nth_error (L s t) i = Some e -> fst e = t -> majority (acked s t i) ->
  forall s', active (sg s) s' = true -> (t < s')%N -> agree (S i) (L s s') (L s t).
Proof.
  intros I Ha HN FE MA.
  assert (STRONG : forall n s', (N.to_nat s' < n)%nat -> active (sg s) s' = true -> (t < s')%N -> agree (S i) (L s s') (L s t)).
  { induction n as [|n IH]; intros s' B AS LT; [lia|].
    destruct (i3b s I _ AS) as [c' LD].
    destruct (i3a s I _ _ LD) as (_ & MV & _).
    destruct (acked_voted_meet s t i s' c' MA MV) as (q & k & r & INA & LK & INR & E4 & E5 & E3).
    assert (CA : agree (S i) (vr_clog r) (L s t)).
    { apply (vote_carries s r q t k i e I INR INA (eq_sym E4) LK); try assumption; [rewrite E5; exact LT|].
      intros s'' AS' L1 L2. apply IH; [rewrite E5 in L2; lia|exact AS'|exact L1]. }
    assert (LD' : ldr s (vr_term r) = Some (vr_cand r)) by (rewrite E5, E3; exact LD).
    destruct (i7 s I r INR LD') as [A7 L7]. rewrite E5 in A7.
    assert (LEN : (S i <= length (vr_clog r))%nat).
    { apply agree_sym in CA. apply (agree_len _ _ _ CA). apply nth_error_Some_lt in HN. lia. }
    eapply agree_trans; [|exact CA]. apply agree_sym. eapply agree_le; [|exact A7]. exact LEN. }
  intros s' AS LT. apply (STRONG (S (N.to_nat s')) s'); [lia|exact AS|exact LT].
Qed.

Lemma pres_commit s t i e :
  SInv s -> active (sg s) t = true -> nth_error (L s t) i = Some e -> fst e = t -> majority (acked s t i) ->
  SInv (mkS (sg s) (tm s) (votes s) (acks s) (acc s) (ldr s) ((i, e, t) :: commits s) (cnd s)).
Proof.
  intros I Ha HN FE MA. constructor; cbn.
  - exact (i1 s I).
  - exact (i2 s I).
  - exact (i3a s I).
  - exact (i3b s I).
  - exact (i4 s I).
  - exact (i5 s I).
  - exact (i6 s I).
  - exact (i7 s I).
  - exact (i8 s I).
  - exact (i9 s I).
  - exact (i10 s I).
  - exact (i11 s I).
  - exact (i12 s I).
  - intros i' e' t' [E|H]; [|exact (i13 s I _ _ _ H)]. inversion E; subst i' e' t'.
    refine (conj Ha (conj HN (conj FE (conj MA _)))). exact (commit_carried s t i e I Ha HN FE MA).
Qed.

Lemma pres_lose s m k :
  SInv s -> (forall t k', In (m, t, k') (acks s) -> (k' <= k)%nat) ->
  SInv (mkS (mkG (upd (logs (sg s)) (KNode m) (firstn k (nlog s m))) (active (sg s)))
            (tm s) (votes s) (acks s) (acc s) (ldr s) (commits s) (updN (cnd s) m false)).
Proof.
  intros I Hlk.
  set (l' := firstn k (nlog s m)).
  assert (G : gstep (sg s) (mkG (upd (logs (sg s)) (KNode m) l') (active (sg s)))) by (unfold l', nlog; apply LoseSuffix).
  assert (LL : forall t', upd (logs (sg s)) (KNode m) l' (KLead t') = L s t') by (intros; apply upd_other; discriminate).
  assert (NL : forall n, n <> m -> upd (logs (sg s)) (KNode m) l' (KNode n) = nlog s n)
    by (intros n NE; apply upd_other; congruence).
  assert (ML : upd (logs (sg s)) (KNode m) l' (KNode m) = l') by apply upd_same.
  constructor; unfold L, nlog in *; cbn [sg tm votes acks acc ldr commits cnd logs active].
  - eapply inv_step; [exact (i1 s I)|exact G].
  - intros k0. destruct k0 as [n|t']; cbn [kbound tm].
    + destruct (N.eq_dec n m) as [->|NE].
      * rewrite ML. destruct (i2 s I (KNode m)) as [M B]. split; [apply mono_firstn; exact M|apply bounded_firstn; exact B].
      * rewrite (NL n NE). exact (i2 s I (KNode n)).
    + rewrite LL. exact (i2 s I (KLead t')).
  - exact (i3a s I).
  - exact (i3b s I).
  - exact (i4 s I).
  - exact (i5 s I).
  - intros r H T A K. destruct (N.eq_dec (vr_cand r) m) as [E|NE].
    + exfalso. rewrite E, updN_same in K. discriminate.
    + rewrite (NL _ NE). rewrite (updN_other _ _ _ _ NE) in K. exact (i6 s I r H T A K).
  - intros r H LD. rewrite LL. exact (i7 s I r H LD).
  - intros r H. destruct (i8 s I r H) as (A & B & C). refine (conj _ (conj _ C)).
    + intros i e Hi. unfold L; cbn [sg logs active]. rewrite LL. exact (A i e Hi).
    + intros i e Hi. unfold L; cbn [sg logs active]. rewrite LL. exact (B i e Hi).
  - intros m' t' k' H. rewrite LL. exact (i9 s I _ _ _ H).
  - intros m' t' k' i H LK P. rewrite LL.
    assert (OLD : agree (S i) (logs (sg s) (KNode m')) (logs (sg s) (KLead t'))).
    { apply (i10 s I m' t' k' i H LK). intros s' IN LT. specialize (P s' IN LT). rewrite !LL in P. exact P. }
    destruct (N.eq_dec m' m) as [->|NE]; [|rewrite (NL _ NE); exact OLD].
    rewrite ML. unfold l', agree. rewrite firstn_firstn. specialize (Hlk _ _ H).
    replace (Nat.min (S i) k) with (S i) by lia. exact OLD.
  - intros r m' t' k' i H HA EM LT LK P. rewrite LL.
    apply (i11 s I r m' t' k' i H HA EM LT LK). intros s' AS L1 L2. specialize (P s' AS L1 L2). rewrite !LL in P. exact P.
  - exact (i12 s I).
  - intros i e t' H. destruct (i13 s I _ _ _ H) as (A & B & C & M & D). rewrite LL. repeat split; auto;
    try (intros s' AS LT; rewrite LL; exact (D s' AS LT)).
Qed.

Theorem sinv_step s s' : SInv s -> sstep s s' -> SInv s'.
Proof.
  intros I H.
  destruct H as [s c t Ht | s v t c Hv Hc Hcn Ha Hu Hutd | s c t g' Hc Hcn Ha Hm Hg Eg
                | s c t x g' Hc Hl Ha Hn Eg | s m t prev cnt pt g' Hm Ha P1 P2 Eg
                | s m t k Hm Ha Hag Hk | s m k g' Hlk Eg | s t i e Ha Hn He Hm].
  - apply pres_campaign; assumption.
  - apply pres_vote; assumption.
  - subst g'. apply pres_become_leader; assumption.
  - subst g'. apply pres_leader_append; assumption.
  - subst g'. eapply pres_follower_append; eassumption.
  - apply pres_ack; assumption.
  - subst g'. apply pres_lose; assumption.
  - apply pres_commit; assumption.
Qed.

Theorem sreach_sinv s : sreach s -> SInv s.
Proof. induction 1 as [s I|s s' R IH S]; [apply sinv_init; exact I|eapply sinv_step; eassumption]. Qed.


(* ---------- Leader Completeness and State Machine Safety ---------- *)

(* position j holds the committed value x: some leadership t committed a position i >= j of its
   log (an entry of its own term, acknowledged by a majority), and x is what that log holds at j *)
Definition cval (s : sstate) (j : nat) (x : aent) : Prop :=
  exists i e t, In (i, e, t) (commits s) /\ (j <= i)%nat /\ nth_error (L s t) j = Some x.

(* what a node may treat as committed (and hand to the state machine): position j, on the
   authority of leadership t <= its term that committed some i >= j, when its own log agrees
   with that leadership's log through j *)
Definition can_learn (s : sstate) (m : N) (j : nat) (t : N) : Prop :=
  exists i e, In (i, e, t) (commits s) /\ (j <= i)%nat /\ (t <= tm s m)%N /\ agree (S j) (nlog s m) (L s t).

Theorem leader_completeness s i e t :
  SInv s -> In (i, e, t) (commits s) ->
  forall t' j x, active (sg s) t' = true -> (t < t')%N -> (j <= i)%nat ->
    nth_error (L s t) j = Some x -> nth_error (L s t') j = Some x.
Proof.
  intros I HC t' j x AS LT LE HN. destruct (i13 s I _ _ _ HC) as (_ & _ & _ & _ & D).
  rewrite (agree_nth _ _ _ j (D t' AS LT)) by lia. exact HN.
Qed.

Theorem cval_unique s j x y : SInv s -> cval s j x -> cval s j y -> x = y.
Proof.
  intros I (i1 & e1 & t1 & C1 & L1 & N1) (i2 & e2 & t2 & C2 & L2 & N2).
  destruct (i13 s I _ _ _ C1) as (A1 & _). destruct (i13 s I _ _ _ C2) as (A2 & _).
  destruct (N.lt_trichotomy t1 t2) as [LT|[EQ|LT]].
  - pose proof (leader_completeness s i1 e1 t1 I C1 t2 j x A2 LT L1 N1) as H. congruence.
  - subst t2. congruence.
  - pose proof (leader_completeness s i2 e2 t2 I C2 t1 j y A1 LT L2 N2) as H. congruence.
Qed.

Lemma can_learn_cval s m j t : SInv s -> can_learn s m j t ->
  exists x, nth_error (nlog s m) j = Some x /\ cval s j x.
Proof.
  intros I (i & e & HC & LE & LT & AG).
  destruct (i13 s I _ _ _ HC) as (_ & HN & _).
  assert (LJ : (j < length (L s t))%nat) by (apply nth_error_Some_lt in HN; lia).
  destruct (nth_error (L s t) j) as [x|] eqn:NJ; [|apply nth_error_None in NJ; lia].
  exists x. split; [rewrite (agree_nth _ _ _ j AG) by lia; exact NJ|]. exists i, e, t. auto.
Qed.

(* the log of an active leadership only grows *)
Lemma L_stable s s' t j x :
  SInv s -> sstep s s' -> active (sg s) t = true -> nth_error (L s t) j = Some x -> nth_error (L s' t) j = Some x.
Proof.
  intros I H AT HN.
  destruct H as [s c t1 Ht | s v t1 c Hv Hc Hcn Ha Hu Hutd | s c t1 g' Hc Hcn Ha Hm Hg Eg
                | s c t1 x1 g' Hc Hl Ha Hn Eg | s m t1 prev cnt pt g' Hm Ha P1 P2 Eg
                | s m t1 k Hm Ha Hag Hk | s m k g' Hlk Eg | s t1 i e Ha Hn He Hm]; unfold L in *; cbn [sg logs]; try exact HN.
  - subst g'. cbn [logs]. rewrite upd_other; [exact HN|]. intro X. inversion X; subst. congruence.
  - subst g'. cbn [logs]. rewrite upd_other by discriminate.
    destruct (N.eq_dec t t1) as [->|NE]; [|rewrite upd_other by congruence; exact HN].
    rewrite upd_same. rewrite nth_error_app1 by (apply nth_error_Some_lt in HN; exact HN). exact HN.
  - subst g'. cbn [logs]. rewrite upd_other by discriminate. exact HN.
  - subst g'. cbn [logs]. rewrite upd_other by discriminate. exact HN.
Qed.

Lemma commits_stable s s' c : sstep s s' -> In c (commits s) -> In c (commits s').
Proof. intros H HC. destruct H; cbn [commits]; try exact HC. right. exact HC. Qed.

Lemma tm_stable s s' n : sstep s s' -> (tm s n <= tm s' n)%N.
Proof.
  intros H. destruct H; cbn [tm]; try lia; apply updN_ge; lia.
Qed.

Theorem cval_stable s s' j x : SInv s -> sstep s s' -> cval s j x -> cval s' j x.
Proof.
  intros I H (i & e & t & HC & LE & HN). destruct (i13 s I _ _ _ HC) as (AT & _).
  exists i, e, t. split; [eapply commits_stable; eassumption|]. split; [exact LE|]. eapply L_stable; eassumption.
Qed.

(* a node never replaces what it may treat as committed: as long as it still holds position j
   (it may lose a not yet acknowledged suffix of its log in a crash), the committed value is there *)
Theorem can_learn_stable s s' m j t :
  SInv s -> sstep s s' -> can_learn s m j t -> (S j <= length (nlog s' m))%nat -> can_learn s' m j t.
Proof.
  intros I H (i & e & HC & LE & LT & AG) HOLD.
  pose proof (commits_stable s s' _ H HC) as HC'. pose proof (tm_stable s s' m H) as TM'.
  exists i, e. refine (conj HC' (conj LE (conj (N.le_trans _ _ _ LT TM') _))).
  destruct (i13 s I _ _ _ HC) as (AT & HN & FE & MA & D).
  assert (LJ : (S j <= length (L s t))%nat) by (apply nth_error_Some_lt in HN; lia).
  assert (LM : (S j <= length (nlog s m))%nat) by (apply agree_sym in AG; apply (agree_len _ _ _ AG); exact LJ).
  clear HC' TM'.
  destruct H as [s c t1 Ht | s v t1 c Hv Hc Hcn Ha Hu Hutd | s c t1 g' Hc Hcn Ha Hm Hg Eg
                | s c t1 x1 g' Hc Hl Ha Hn Eg | s m1 t1 prev cnt pt g' Hm Ha P1 P2 Eg
                | s m1 t1 k Hm Ha Hag Hk | s m1 k g' Hlk Eg | s t1 i1 e1 Ha Hn He Hm]; unfold L, nlog in *; cbn [sg logs]; try exact AG.
  - subst g'. cbn [logs]. rewrite (upd_other _ _ _ (KNode m)) by discriminate.
    rewrite upd_other; [exact AG|]. intro X. inversion X; subst. congruence.
  - subst g'. cbn [logs].
    assert (R : agree (S j) (logs (sg s) (KNode m))
                  (upd (upd (logs (sg s)) (KLead t1) (logs (sg s) (KLead t1) ++ [(t1, x1)])) (KNode c)
                       (logs (sg s) (KLead t1) ++ [(t1, x1)]) (KLead t))).
    { rewrite upd_other by discriminate.
      destruct (N.eq_dec t t1) as [->|NE]; [rewrite upd_same; apply agree_app_r; assumption|rewrite upd_other by congruence; exact AG]. }
    destruct (N.eq_dec m c) as [->|NE].
    + rewrite upd_same. apply agree_grow_l; [|apply (agree_len _ _ _ R); exact LM].
      rewrite Hn in R. exact R.
    + rewrite (upd_other _ _ _ (KNode m)) by congruence. rewrite (upd_other _ _ _ (KNode m)) by discriminate. exact R.
  - subst g'. cbn [logs]. rewrite (upd_other _ _ _ (KLead t)) by discriminate.
    destruct (N.eq_dec m m1) as [->|NE]; [|rewrite upd_other by congruence; exact AG].
    rewrite upd_same.
    assert (AT2 : agree (S j) (logs (sg s) (KLead t1)) (logs (sg s) (KLead t))).
    { destruct (N.eq_dec t1 t) as [->|NT]; [apply agree_refl|].
      eapply agree_le; [|apply (D t1 Ha); lia]. lia. }
    exact (fappend_keeps (sg s) (KNode m1) t1 prev cnt pt _ j (i1 s I) P1 P2 AG AT2 LM).
  - subst g'. cbn [logs sg] in *. rewrite (upd_other _ _ _ (KLead t)) by discriminate.
    destruct (N.eq_dec m m1) as [->|NE]; [|rewrite upd_other by congruence; exact AG].
    rewrite upd_same in *. rewrite firstn_length in HOLD.
    unfold agree. rewrite firstn_firstn. replace (Nat.min (S j) k) with (S j) by lia. exact AG.
Qed.

(* ---------- executions: protocol steps interleaved with nodes learning commits ---------- *)

Definition astate := (sstate * list (N * nat * aent))%type.   (* (node, position, value handed to the state machine) *)

Inductive astep : astate -> astate -> Prop :=
| AProto s s' ap : sstep s s' -> astep (s, ap) (s', ap)
| AApply s ap m j t x : can_learn s m j t -> nth_error (nlog s m) j = Some x -> astep (s, ap) (s, (m, j, x) :: ap).

Inductive areach : astate -> Prop :=
| areach_init s : sinit s -> areach (s, [])
| areach_step p p' : areach p -> astep p p' -> areach p'.

Definition AInv (p : astate) : Prop :=
  SInv (fst p) /\ forall m j x, In (m, j, x) (snd p) -> cval (fst p) j x.

Lemma areach_ainv p : areach p -> AInv p.
Proof.
  induction 1 as [s I|p p' R [IS IA] S].
  - split; [apply sinv_init; exact I|intros m j x []].
  - destruct S as [s s' ap S|s ap m j t x CL HN]; cbn [fst snd] in *.
    + split; [eapply sinv_step; eassumption|]. intros m j x H. eapply cval_stable; [exact IS|exact S|]. eapply IA. exact H.
    + split; [exact IS|]. intros m' j' x' [E|H]; [|eapply IA; exact H]. inversion E; subst m' j' x'.
      destruct (can_learn_cval s m j t IS CL) as [y [NY CV]]. rewrite HN in NY. inversion NY; subst y. exact CV.
Qed.

(* State Machine Safety, over whole executions: whatever any two nodes ever handed to their
   state machines at the same position, at any two moments of any execution, is the same entry *)
Theorem state_machine_safety p m1 m2 j x y :
  areach p -> In (m1, j, x) (snd p) -> In (m2, j, y) (snd p) -> x = y.
Proof.
  intros R H1 H2. destruct (areach_ainv p R) as [IS IA].
  eapply cval_unique; [exact IS|eapply IA; exact H1|eapply IA; exact H2].
Qed.

End WithVoters.
