(* Safety.v (protocol level): Leader Completeness and State Machine Safety for any network of
   nodes that obey the rules the node model implements, with static membership [vs]:
     Campaign      a node raises its term
     Vote          one vote per term, never in a lower term, only for a candidate of that
                   term whose log is at least as up to date (last term, then length)
     BecomeLeader  a candidate of term t with votes of term t from a majority of [vs], no
                   leadership of t yet; the leadership's log starts as the candidate's log
     LeaderAppend  the leader of t appends an entry of term t at the end of its log
     FollowerAppend  as in LogMatching.v, from a leadership s >= the follower's term
     Ack           a node in term s acknowledges that its log agrees with the leadership's log
                   of s up to length k
     Commit        the leadership of s commits position i if the entry there has term s and a
                   majority of [vs] acknowledged a length > i in term s
   Messages can be delayed, duplicated, reordered, lost (every step may use any slice of the
   append-only ghost logs at any time).  History variables: every vote records the candidate's
   and the voter's log at that moment.  Unbounded nodes, terms, lengths, steps. *)
From Coq Require Import List NArith Bool Lia Arith.
From RaftV Require Import LogMatching.
From RaftV Require QuorumProofs.
Import ListNotations.

Section WithVoters.
Variable vs : list N.     (* the voters (static membership) *)

Record vrec := mkV {
  vr_voter : N; vr_term : N; vr_cand : N;
  vr_clog : list aent;      (* candidate's log when the vote was cast *)
  vr_vlog : list aent;      (* voter's log when the vote was cast *)
}.

Record sstate := mkS {
  sg : gstate;                          (* logs and leaderships, as in LogMatching *)
  tm : N -> N;                          (* current term of each node *)
  votes : list vrec;
  acks : list (N * N * nat);            (* (node, term, length) *)
  acc : N -> list N;                    (* leaderships a node accepted entries from, or led *)
  ldr : N -> option N;                  (* leader of each term *)
  commits : list (nat * aent * N);      (* (position, entry, term of the committing leadership) *)
}.

Definition lastT (l : list aent) : N := match rev l with [] => 0%N | e :: _ => fst e end.

Definition utd (lc lv : list aent) : Prop :=
  (lastT lv < lastT lc)%N \/ (lastT lc = lastT lv /\ (length lv <= length lc)%nat).

Definition voted_for (s : sstate) (t c v : N) : bool :=
  existsb (fun r => N.eqb (vr_voter r) v && N.eqb (vr_term r) t && N.eqb (vr_cand r) c) (votes s).

Definition acked (s : sstate) (t : N) (i : nat) (q : N) : bool :=
  existsb (fun a => match a with (n, t', k) => N.eqb n q && N.eqb t' t && Nat.ltb i k end) (acks s).

Definition majority (f : N -> bool) : Prop := (2 * length (filter f vs) > length vs)%nat.

Definition updN {A} (f : N -> A) (k : N) (v : A) : N -> A := fun k' => if N.eqb k' k then v else f k'.

Definition L (s : sstate) (t : N) : list aent := logs (sg s) (KLead t).
Definition nlog (s : sstate) (n : N) : list aent := logs (sg s) (KNode n).

Inductive sstep : sstate -> sstate -> Prop :=
| SCampaign s c t :
    (tm s c < t)%N ->
    sstep s (mkS (sg s) (updN (tm s) c t) (votes s) (acks s) (acc s) (ldr s) (commits s))
| SVote s v t c :
    (tm s v <= t)%N -> tm s c = t -> active (sg s) t = false ->
    (forall r, In r (votes s) -> vr_voter r = v -> vr_term r = t -> vr_cand r = c) ->
    utd (nlog s c) (nlog s v) ->
    sstep s (mkS (sg s) (updN (tm s) v t)
                 (mkV v t c (nlog s c) (nlog s v) :: votes s) (acks s) (acc s) (ldr s) (commits s))
| SBecomeLeader s c t g' :
    tm s c = t -> active (sg s) t = false -> majority (voted_for s t c) ->
    gstep (sg s) g' ->
    g' = mkG (upd (logs (sg s)) (KLead t) (nlog s c)) (fun t' => if N.eqb t' t then true else active (sg s) t') ->
    sstep s (mkS g' (tm s) (votes s) (acks s) (updN (acc s) c (t :: acc s c)) (updN (ldr s) t (Some c)) (commits s))
| SLeaderAppend s c t x g' :
    tm s c = t -> ldr s t = Some c -> active (sg s) t = true -> nlog s c = L s t ->
    g' = mkG (upd (upd (logs (sg s)) (KLead t) (L s t ++ [(t, x)])) (KNode c) (L s t ++ [(t, x)])) (active (sg s)) ->
    sstep s (mkS g' (tm s) (votes s) (acks s) (acc s) (ldr s) (commits s))
| SFollowerAppend s m t prev cnt pt g' :
    (tm s m <= t)%N -> active (sg s) t = true ->
    prev_term (nlog s m) prev = Some pt -> prev_term (L s t) prev = Some pt ->
    g' = mkG (upd (logs (sg s)) (KNode m) (fappend (nlog s m) prev (firstn cnt (skipn prev (L s t))))) (active (sg s)) ->
    sstep s (mkS g' (updN (tm s) m t) (votes s) (acks s) (updN (acc s) m (t :: acc s m)) (ldr s) (commits s))
| SAck s m t k :
    tm s m = t -> active (sg s) t = true -> agree k (nlog s m) (L s t) -> (k <= length (nlog s m))%nat ->
    sstep s (mkS (sg s) (tm s) (votes s) ((m, t, k) :: acks s) (acc s) (ldr s) (commits s))
| SCommit s t i e :
    active (sg s) t = true -> nth_error (L s t) i = Some e -> fst e = t ->
    majority (acked s t i) ->
    sstep s (mkS (sg s) (tm s) (votes s) (acks s) (acc s) (ldr s) ((i, e, t) :: commits s)).

Definition sinit (s : sstate) : Prop :=
  init (sg s) /\ (forall t, active (sg s) t = false) /\ votes s = [] /\ acks s = [] /\
  (forall n, acc s n = []) /\ (forall t, ldr s t = None) /\ commits s = [].

Inductive sreach : sstate -> Prop :=
| sreach_init s : sinit s -> sreach s
| sreach_step s s' : sreach s -> sstep s s' -> sreach s'.

(* every step is a step of the log-replication system, or leaves the logs alone *)
Lemma sstep_gstep s s' : sstep s s' -> gstep (sg s) (sg s') \/ sg s' = sg s.
Proof.
  intros H.
  destruct H as [s c t Ht | s v t c Hv Hc Ha Hu Hutd | s c t g' Hc Ha Hm Hg Eg
                | s c t x g' Hc Hl Ha Hn Eg | s m t prev cnt pt g' Hm Ha P1 P2 Eg
                | s m t k Hm Ha Hag Hk | s t i e Ha Hn He Hm]; cbn.
  - right; reflexivity.
  - right; reflexivity.
  - left. exact Hg.
  - left. subst g'. unfold L, nlog in *.
    pose proof (LeaderAppend (sg s) c t x Ha Hn) as G. cbn zeta in G. exact G.
  - left. subst g'. unfold L, nlog in *. eapply FollowerAppend; eassumption.
  - right; reflexivity.
  - right; reflexivity.
Qed.

Lemma sreach_inv s : sreach s -> inv (sg s).
Proof.
  induction 1 as [s I|s s' R IH S].
  - apply inv_init. apply I.
  - destruct (sstep_gstep _ _ S) as [G|E]; [eapply inv_step; eassumption|rewrite E; exact IH].
Qed.


(* ---------- list facts ---------- *)

Definition mono (l : list aent) : Prop :=
  forall i j e1 e2, (i <= j)%nat -> nth_error l i = Some e1 -> nth_error l j = Some e2 -> (fst e1 <= fst e2)%N.
Definition bounded (b : N) (l : list aent) : Prop := forall e, In e l -> (fst e <= b)%N.
Definition below (b : N) (l : list aent) : Prop := forall e, In e l -> (fst e < b)%N.

Lemma In_firstn {A} (l : list A) : forall n x, In x (firstn n l) -> In x l.
Proof.
  induction l as [|y l IH]; intros n x H; destruct n; cbn in *; try contradiction.
  destruct H as [H|H]; [left; exact H|right; eapply IH; exact H].
Qed.

Lemma mono_firstn l n : mono l -> mono (firstn n l).
Proof.
  intros M i j e1 e2 Lij H1 H2.
  assert (A : (i < n)%nat) by (apply nth_error_Some_lt in H1; rewrite firstn_length in H1; lia).
  assert (B : (j < n)%nat) by (apply nth_error_Some_lt in H2; rewrite firstn_length in H2; lia).
  rewrite (nth_error_firstn l n i A) in H1. rewrite (nth_error_firstn l n j B) in H2. exact (M i j e1 e2 Lij H1 H2).
Qed.

Lemma bounded_firstn b l n : bounded b l -> bounded b (firstn n l).
Proof. intros B e H. apply B. eapply In_firstn. exact H. Qed.

Lemma bounded_le b b' l : (b <= b')%N -> bounded b l -> bounded b' l.
Proof. intros Lb B e H. specialize (B e H). lia. Qed.

Lemma below_bounded b l : below b l -> bounded b l.
Proof. intros B e H. specialize (B e H). lia. Qed.

Lemma mono_app_last l t x : mono l -> bounded t l -> mono (l ++ [(t, x)]).
Proof.
  intros M B i j e1 e2 Lij H1 H2.
  destruct (Nat.lt_ge_cases j (length l)) as [Lj|Gj].
  - rewrite nth_error_app1 in H1, H2 by lia. exact (M i j e1 e2 Lij H1 H2).
  - rewrite nth_error_app2 in H2 by lia.
    destruct (j - length l)%nat eqn:D; cbn in H2; [|destruct n; discriminate]. inversion H2; subst; cbn.
    destruct (Nat.lt_ge_cases i (length l)) as [Li|Gi].
    + rewrite nth_error_app1 in H1 by lia. apply B. eapply nth_error_In. exact H1.
    + rewrite nth_error_app2 in H1 by lia.
      destruct (i - length l)%nat eqn:D2; cbn in H1; [|destruct n; discriminate]. inversion H1; subst; cbn. lia.
Qed.

Lemma bounded_app_last l t x : bounded t l -> bounded t (l ++ [(t, x)]).
Proof. intros B e H. apply in_app_or in H. destruct H as [H|[H|[]]]; [apply B; exact H|subst; cbn; lia]. Qed.

Lemma lastT_nth l : l <> [] -> exists e, nth_error l (length l - 1) = Some e /\ lastT l = fst e.
Proof.
  intros NE. unfold lastT. destruct (rev l) as [|e r] eqn:R.
  - exfalso. apply NE. rewrite <- (rev_involutive l), R. reflexivity.
  - exists e. split; [|reflexivity].
    assert (E : l = rev r ++ [e]) by (rewrite <- (rev_involutive l), R; reflexivity).
    rewrite E at 1. rewrite E, app_length. cbn. rewrite nth_error_app2 by lia.
    replace (length (rev r) + 1 - 1 - length (rev r))%nat with 0%nat by lia. reflexivity.
Qed.

Lemma lastT_nil : lastT [] = 0%N.
Proof. reflexivity. Qed.

Lemma mono_lastT l i e : mono l -> nth_error l i = Some e -> (fst e <= lastT l)%N.
Proof.
  intros M H. assert (NE : l <> []) by (intro X; subst; destruct i; discriminate).
  destruct (lastT_nth l NE) as [e' [H' E']]. rewrite E'.
  apply (M i (length l - 1)%nat e e'); [|exact H|exact H']. apply nth_error_Some_lt in H. lia.
Qed.


(* ---------- more about the follower rule ---------- *)

Lemma first_conflict_some ents : forall tail c,
  first_conflict tail ents = Some c ->
  (c < length ents)%nat /\
  (nth_error tail c = None \/
   exists x e, nth_error tail c = Some x /\ nth_error ents c = Some e /\ fst x <> fst e).
Proof.
  induction ents as [|e ents IH]; intros tail c H; cbn in H; [discriminate|].
  destruct tail as [|x tail].
  - inversion H; subst. cbn. split; [lia|left; reflexivity].
  - destruct (N.eqb_spec (fst x) (fst e)) as [E|NE].
    + destruct (first_conflict tail ents) as [c'|] eqn:F; [|discriminate]. inversion H; subst.
      destruct (IH _ _ F) as [A B]. cbn. split; [lia|exact B].
    + inversion H; subst. cbn. split; [lia|right]. exists x, e. auto.
Qed.

Lemma nth_error_skipn {A} (l : list A) : forall p c, nth_error (skipn p l) c = nth_error l (p + c).
Proof.
  induction l as [|x l IH]; intros p c.
  - rewrite skipn_nil. destruct c, (p + 0)%nat, p; reflexivity || (destruct (p + S c)%nat; reflexivity).
  - destruct p; cbn; [reflexivity|apply IH].
Qed.

(* if the follower's log and the leadership's log both agree with a third log up to S i, the
   follower rule keeps that agreement (it cannot truncate at or below i) *)
Lemma fappend_keeps g km t prev cnt pt ref i :
  inv g ->
  prev_term (logs g km) prev = Some pt -> prev_term (logs g (KLead t)) prev = Some pt ->
  agree (S i) (logs g km) ref -> agree (S i) (logs g (KLead t)) ref ->
  (S i <= length (logs g km))%nat ->
  agree (S i) (fappend (logs g km) prev (firstn cnt (skipn prev (logs g (KLead t))))) ref.
Proof.
  intros I P1 P2 A1 A2 LEN.
  pose proof (prev_match_agree g km t prev pt I P1 P2) as A.
  pose proof (first_conflict_spec g km t I cnt prev A) as FC. cbn zeta in FC.
  unfold fappend.
  destruct (first_conflict (skipn prev (logs g km)) (firstn cnt (skipn prev (logs g (KLead t))))) as [c|] eqn:F;
    [|exact A1].
  destruct FC as [AC LC]. destruct (first_conflict_some _ _ _ F) as [CL W].
  (* the conflict position p = prev + c lies above i *)
  assert (P : (i < prev + c)%nat).
  { destruct (Nat.lt_ge_cases i (prev + c)) as [Q|Q]; [exact Q|exfalso].
    assert (EQ : nth_error (logs g km) (prev + c) = nth_error (logs g (KLead t)) (prev + c)).
    { rewrite (agree_nth _ _ _ _ A1) by lia. rewrite (agree_nth _ _ _ _ A2) by lia. reflexivity. }
    rewrite nth_error_skipn in W.
    destruct W as [W|[x [e [W1 [W2 W3]]]]].
    - apply nth_error_None in W. lia.
    - rewrite W1 in EQ.
      assert (E2 : nth_error (logs g (KLead t)) (prev + c) = Some e).
      { rewrite <- nth_error_skipn. rewrite <- (nth_error_firstn _ cnt c); [exact W2|].
        apply nth_error_Some_lt in W2. rewrite firstn_length in W2. lia. }
      rewrite E2 in EQ. inversion EQ; subst. apply W3. reflexivity. }
  (* below the conflict position the result is the old log *)
  unfold agree. rewrite firstn_app.
  rewrite firstn_firstn. replace (Nat.min (S i) (prev + c)) with (S i) by lia.
  rewrite firstn_length. replace (S i - Nat.min (prev + c) (length (logs g km)))%nat with 0%nat by lia.
  cbn. rewrite app_nil_r. exact A1.
Qed.


(* ---------- the invariant ---------- *)

Definition kbound (s : sstate) (k : key) : N := match k with KNode n => tm s n | KLead t => t end.

(* the log invariant of LogMatching for a frozen copy of a log *)
Definition linv (s : sstate) (l : list aent) : Prop :=
  forall i e, nth_error l i = Some e -> active (sg s) (fst e) = true /\ agree (S i) l (L s (fst e)).

Record SInv (s : sstate) : Prop := mkSInv {
  i1 : inv (sg s);
  i2 : forall k, mono (logs (sg s) k) /\ bounded (kbound s k) (logs (sg s) k);
  i3a : forall t c, ldr s t = Some c ->
        active (sg s) t = true /\ majority (voted_for s t c) /\ (t <= tm s c)%N;
  i3b : forall t, active (sg s) t = true -> exists c, ldr s t = Some c;
  i4 : forall r, In r (votes s) ->
       (vr_term r <= tm s (vr_voter r))%N /\ (vr_term r <= tm s (vr_cand r))%N;
  i5 : forall r1 r2, In r1 (votes s) -> In r2 (votes s) ->
       vr_voter r1 = vr_voter r2 -> vr_term r1 = vr_term r2 -> vr_cand r1 = vr_cand r2;
  i6 : forall r, In r (votes s) -> tm s (vr_cand r) = vr_term r -> active (sg s) (vr_term r) = false ->
       nlog s (vr_cand r) = vr_clog r;
  i7 : forall r, In r (votes s) -> ldr s (vr_term r) = Some (vr_cand r) ->
       agree (length (vr_clog r)) (vr_clog r) (L s (vr_term r)) /\
       (length (vr_clog r) <= length (L s (vr_term r)))%nat;
  i8 : forall r, In r (votes s) ->
       linv s (vr_clog r) /\ linv s (vr_vlog r) /\ mono (vr_clog r) /\ mono (vr_vlog r) /\
       below (vr_term r) (vr_clog r) /\ below (vr_term r) (vr_vlog r) /\ utd (vr_clog r) (vr_vlog r);
  i9 : forall m t k, In (m, t, k) (acks s) ->
       (t <= tm s m)%N /\ active (sg s) t = true /\ (k <= length (L s t))%nat;
  i10 : forall m t k i, In (m, t, k) (acks s) -> (i < k)%nat ->
        (forall s', In s' (acc s m) -> (t < s')%N -> agree (S i) (L s s') (L s t)) ->
        agree (S i) (nlog s m) (L s t);
  i11 : forall r m t k i, In r (votes s) -> In (m, t, k) (acks s) -> m = vr_voter r ->
        (t < vr_term r)%N -> (i < k)%nat ->
        (forall s', active (sg s) s' = true -> (t < s')%N -> (s' < vr_term r)%N -> agree (S i) (L s s') (L s t)) ->
        agree (S i) (vr_vlog r) (L s t);
  i12 : forall n s', In s' (acc s n) -> active (sg s) s' = true /\ (s' <= tm s n)%N;
  i13 : forall i e t, In (i, e, t) (commits s) ->
        active (sg s) t = true /\ nth_error (L s t) i = Some e /\ fst e = t /\ majority (acked s t i) /\
        forall s', active (sg s) s' = true -> (t < s')%N -> agree (S i) (L s s') (L s t);
}.

Lemma sinv_init s : sinit s -> SInv s.
Proof.
  intros (I & A & V & K & C & Ld & Cm).
  assert (LN : forall k, logs (sg s) k = []) by exact I.
  constructor.
  - apply inv_init. exact I.
  - intros k. rewrite LN. split; [intros i j e1 e2 _ H; destruct i; discriminate|intros e []].
  - intros t c H. rewrite Ld in H. discriminate.
  - intros t H. rewrite A in H. discriminate.
  - intros r H. rewrite V in H. destruct H.
  - intros r1 r2 H. rewrite V in H. destruct H.
  - intros r H. rewrite V in H. destruct H.
  - intros r H. rewrite V in H. destruct H.
  - intros r H. rewrite V in H. destruct H.
  - intros m t k H. rewrite K in H. destruct H.
  - intros m t k i H. rewrite K in H. destruct H.
  - intros r m t k i H. rewrite V in H. destruct H.
  - intros n s' H. rewrite C in H. destruct H.
  - intros i e t H. rewrite Cm in H. destruct H.
Qed.


(* ---------- helpers ---------- *)

Lemma updN_same {A} (f : N -> A) k v : updN f k v k = v.
Proof. unfold updN. rewrite N.eqb_refl. reflexivity. Qed.
Lemma updN_other {A} (f : N -> A) k v k' : k' <> k -> updN f k v k' = f k'.
Proof. unfold updN. intros H. destruct (N.eqb_spec k' k); [contradiction|reflexivity]. Qed.
Lemma updN_ge (f : N -> N) k v n : (f k <= v)%N -> (f n <= updN f k v n)%N.
Proof. unfold updN. intros H. destruct (N.eqb_spec n k); [subst; exact H|lia]. Qed.

Lemma majority_mono (f g : N -> bool) : (forall x, f x = true -> g x = true) -> majority f -> majority g.
Proof.
  unfold majority. intros H M.
  assert (LE : (length (filter f vs) <= length (filter g vs))%nat).
  { clear M. induction vs as [|x l IH]; cbn; [lia|].
    destruct (f x) eqn:F; [rewrite (H _ F); cbn; lia|destruct (g x); cbn; lia]. }
  lia.
Qed.

Lemma majority_meet (f g : N -> bool) : majority f -> majority g -> exists q, f q = true /\ g q = true.
Proof.
  unfold majority. intros F G.
  destruct (QuorumProofs.majorities_intersect f g vs F G) as [q [_ [A B]]]. exists q. auto.
Qed.

Lemma upd_same f k v : upd f k v k = v.
Proof. unfold upd. destruct (key_eqb_spec k k); [reflexivity|contradiction]. Qed.
Lemma upd_other f k v k' : k' <> k -> upd f k v k' = f k'.
Proof. unfold upd. intros H. destruct (key_eqb_spec k' k); [contradiction|reflexivity]. Qed.

(* agreement with a log that got one entry of a higher term appended *)
Lemma agree_snoc_inv i l t x r b :
  agree (S i) (l ++ [(t, x)]) r -> bounded b r -> (b < t)%N -> (S i <= length r)%nat ->
  agree (S i) l r /\ (S i <= length l)%nat.
Proof.
  intros A B LT LEN.
  destruct (Nat.le_gt_cases (S i) (length l)) as [Q|Q].
  - split; [|exact Q]. unfold agree in *. rewrite firstn_app in A.
    replace (S i - length l)%nat with 0%nat in A by lia. cbn in A. rewrite app_nil_r in A. exact A.
  - exfalso.
    assert (LL : (length (l ++ [(t, x)]) >= S i)%nat).
    { apply agree_sym in A. apply (agree_len _ _ _ A). exact LEN. }
    rewrite app_length in LL. cbn in LL. assert (EL : length l = i) by lia.
    assert (N1 : nth_error (l ++ [(t, x)]) i = Some (t, x)).
    { rewrite nth_error_app2 by lia. replace (i - length l)%nat with 0%nat by lia. reflexivity. }
    assert (N2 : nth_error r i = Some (t, x)) by (rewrite <- (agree_nth _ _ _ i A) by lia; exact N1).
    clear N1. rename N2 into N1.
    apply nth_error_In in N1. specialize (B _ N1). cbn in B. lia.
Qed.

Lemma agree_grow_l i l x r : agree (S i) l r -> (S i <= length r)%nat -> agree (S i) (l ++ x) r.
Proof.
  intros A LEN. apply agree_sym. apply agree_app_r; [apply agree_sym; exact A|].
  apply agree_sym in A. apply (agree_len _ _ _ A). exact LEN.
Qed.


(* ---------- preservation, step by step ---------- *)

Lemma pres_campaign s c t :
  SInv s -> (tm s c < t)%N ->
  SInv (mkS (sg s) (updN (tm s) c t) (votes s) (acks s) (acc s) (ldr s) (commits s)).
Proof.
  intros I Ht. assert (GE : forall n, (tm s n <= updN (tm s) c t n)%N) by (intros n; apply updN_ge; lia).
  constructor; cbn.
  - exact (i1 s I).
  - intros k. destruct (i2 s I k) as [M B]. split; [exact M|].
    destruct k as [n|t']; cbn in *; [eapply bounded_le; [apply GE|exact B]|exact B].
  - intros t' c' H. destruct (i3a s I _ _ H) as (A & M & T). repeat split; auto. specialize (GE c'). lia.
  - exact (i3b s I).
  - intros r H. destruct (i4 s I r H) as [A B]. pose proof (GE (vr_voter r)). pose proof (GE (vr_cand r)). split; lia.
  - exact (i5 s I).
  - intros r H T A. apply (i6 s I r H); [|exact A].
    destruct (N.eqb_spec (vr_cand r) c) as [E|NE].
    + exfalso. rewrite E, updN_same in T. destruct (i4 s I r H) as [_ B]. rewrite E in B. lia.
    + rewrite updN_other in T by exact NE. exact T.
  - exact (i7 s I).
  - exact (i8 s I).
  - intros m t' k H. destruct (i9 s I _ _ _ H) as (A & B & C). repeat split; auto. specialize (GE m). lia.
  - exact (i10 s I).
  - exact (i11 s I).
  - intros n s' H. destruct (i12 s I _ _ H) as [A B]. split; [exact A|]. specialize (GE n). lia.
  - exact (i13 s I).
Qed.

Lemma voted_for_cons s r t c v :
  existsb (fun r => N.eqb (vr_voter r) v && N.eqb (vr_term r) t && N.eqb (vr_cand r) c) (votes s) = true ->
  existsb (fun r => N.eqb (vr_voter r) v && N.eqb (vr_term r) t && N.eqb (vr_cand r) c) (r :: votes s) = true.
Proof. intros H. cbn. rewrite H. apply orb_true_r. Qed.

Lemma pres_vote s v t c :
  SInv s ->
  (tm s v <= t)%N -> tm s c = t -> active (sg s) t = false ->
  (forall r, In r (votes s) -> vr_voter r = v -> vr_term r = t -> vr_cand r = c) ->
  utd (nlog s c) (nlog s v) ->
  SInv (mkS (sg s) (updN (tm s) v t) (mkV v t c (nlog s c) (nlog s v) :: votes s) (acks s) (acc s) (ldr s) (commits s)).
Proof.
  intros I Hv Hc Ha Hu Hutd.
  assert (GE : forall n, (tm s n <= updN (tm s) v t n)%N) by (intros n; apply updN_ge; exact Hv).
  set (r0 := mkV v t c (nlog s c) (nlog s v)).
  assert (NOT : forall k i e, nth_error (logs (sg s) k) i = Some e -> fst e <> t).
  { intros k i e H E. destruct (i1 s I _ _ _ H) as [A _]. rewrite E in A. congruence. }
  constructor; cbn.
  - exact (i1 s I).
  - intros k. destruct (i2 s I k) as [M B]. split; [exact M|].
    destruct k as [n|t']; cbn in *; [eapply bounded_le; [apply GE|exact B]|exact B].
  - intros t' c' H. destruct (i3a s I _ _ H) as (A & M & T). repeat split; auto.
    + eapply majority_mono; [|exact M]. intros x X. unfold voted_for in *. cbn [existsb votes]. apply orb_true_iff. right. exact X.
    + specialize (GE c'). lia.
  - exact (i3b s I).
  - intros r [E|H].
    + subst r. cbn. rewrite updN_same. split; [lia|]. unfold updN. destruct (N.eqb_spec c v); lia.
    + destruct (i4 s I r H) as [A B]. pose proof (GE (vr_voter r)). pose proof (GE (vr_cand r)). split; lia.
  - intros r1 r2 [E1|H1] [E2|H2] EV ET; subst; cbn in *; try reflexivity.
    + symmetry. apply (Hu r2 H2); [symmetry; exact EV|symmetry; exact ET].
    + apply (Hu r1 H1); assumption.
    + exact (i5 s I _ _ H1 H2 EV ET).
  - intros r [E|H] T A.
    + subst r. reflexivity.
    + apply (i6 s I r H); [|exact A].
      destruct (N.eqb_spec (vr_cand r) v) as [E|NE].
      * rewrite E, updN_same in T. destruct (i4 s I r H) as [_ B]. rewrite E in B |- *. lia.
      * rewrite updN_other in T by exact NE. exact T.
  - intros r [E|H] LD.
    + subst r. cbn in LD. destruct (i3a s I _ _ LD) as (A & _). congruence.
    + exact (i7 s I r H LD).
  - intros r [E|H]; [|exact (i8 s I r H)]. subst r. cbn.
    assert (BL : forall n, (tm s n <= t)%N -> below t (nlog s n)).
    { intros n Ln e He. destruct (In_nth_error _ _ He) as [i Hi].
      pose proof (NOT _ _ _ Hi) as NE. destruct (i2 s I (KNode n)) as [_ B]. specialize (B _ He). cbn in B. lia. }
    refine (conj _ (conj _ (conj _ (conj _ (conj _ (conj _ _)))))).
    + intros i e H. exact (i1 s I _ _ _ H).
    + intros i e H. exact (i1 s I _ _ _ H).
    + exact (proj1 (i2 s I (KNode c))).
    + exact (proj1 (i2 s I (KNode v))).
    + apply BL. lia.
    + apply BL. exact Hv.
    + exact Hutd.
  - intros m t' k H. destruct (i9 s I _ _ _ H) as (A & B & C). repeat split; auto. specialize (GE m). lia.
  - exact (i10 s I).
  - intros r m t0 k i [E|H] HA EM LT LK P.
    + subst r. cbn in *. subst m.
      apply (i10 s I v t0 k i HA LK). intros s' IN LT'.
      destruct (i12 s I _ _ IN) as [AC LE]. apply P; [exact AC|exact LT'|].
      assert (s' <> t) by (intro X; subst; congruence). lia.
    + exact (i11 s I r m t0 k i H HA EM LT LK P).
  - intros n s' H. destruct (i12 s I _ _ H) as [A B]. split; [exact A|]. specialize (GE n). lia.
  - exact (i13 s I).
Qed.

Lemma pres_ack s m t k :
  SInv s -> tm s m = t -> active (sg s) t = true -> agree k (nlog s m) (L s t) -> (k <= length (nlog s m))%nat ->
  SInv (mkS (sg s) (tm s) (votes s) ((m, t, k) :: acks s) (acc s) (ldr s) (commits s)).
Proof.
  intros I Hm Ha Hag Hk. constructor; cbn.
  - exact (i1 s I).
  - exact (i2 s I).
  - exact (i3a s I).
  - exact (i3b s I).
  - exact (i4 s I).
  - exact (i5 s I).
  - exact (i6 s I).
  - exact (i7 s I).
  - exact (i8 s I).
  - intros m' t' k' [E|H]; [|exact (i9 s I _ _ _ H)]. inversion E; subst. repeat split; [lia|exact Ha|].
    apply (agree_len _ _ _ Hag). exact Hk.
  - intros m' t' k' i [E|H] LK P; [|exact (i10 s I _ _ _ _ H LK P)]. inversion E; subst.
    eapply agree_le; [|exact Hag]. lia.
  - intros r m' t' k' i H [E|HA] EM LT LK P; [|exact (i11 s I r m' t' k' i H HA EM LT LK P)].
    inversion E; subst. exfalso. destruct (i4 s I r H) as [A _]. lia.
  - exact (i12 s I).
  - intros i e t' H. destruct (i13 s I _ _ _ H) as (A & B & C & M & D). repeat split; auto.
    eapply majority_mono; [|exact M]. intros x X. unfold acked in *. cbn [existsb acks]. apply orb_true_iff. right. exact X.
Qed.

End WithVoters.
