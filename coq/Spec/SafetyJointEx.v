(* SafetyJointEx.v: the safety theorems also cover a (static) joint configuration: a concrete
   execution with incoming voters {1,2,3} and outgoing voters {1,4,5}, in which node 1 needs and gets
   the votes and the acknowledgements of a majority of BOTH sets (1 and 2 of the first, 1 and 4 of
   the second) before it leads and commits; the votes of {1,2} alone are not a quorum. *)
From Coq Require Import List NArith Bool Lia Arith.
From RaftV Require Import LogMatching Safety SafetyEx.
Import ListNotations.
Local Open Scope N_scope.

Definition vin : list N := [1; 2; 3].
Definition vout : list N := [1; 4; 5].

(* a majority of the incoming voters alone is no quorum of the joint configuration *)
Example joint_needs_both_halves :
  ~ majority vin vout (fun q => N.eqb q 1 || N.eqb q 2) /\
  majority vin vout (fun q => N.eqb q 1 || N.eqb q 2 || N.eqb q 4).
Proof. split; [intros H; vm_compute in H; discriminate H|reflexivity]. Qed.

Example safety_joint_nonvacuous :
  exists p, areach vin vout p /\ In (1, 0%nat, (1, 7)) (snd p) /\ In (4, 0%nat, (1, 7)) (snd p).
Proof.
  assert (R0 : areach vin vout (s0, [])).
  { apply areach_init. repeat split; intros; reflexivity. }
  assert (R1 := areach_step vin vout _ _ R0 (AProto vin vout _ _ [] (SCampaign vin vout s0 1 1 ltac:(dec)))).
  match type of R1 with areach _ _ (?s, _) => set (s1 := s) in R1 end.
  eassert (V1 : sstep vin vout s1 _).
  { apply (SVote vin vout s1 1 1 1); [dec|dec|dec|dec|intros r []|right; split; dec]. }
  assert (R2 := areach_step vin vout _ _ R1 (AProto vin vout _ _ [] V1)). clear V1.
  match type of R2 with areach _ _ (?s, _) => set (s2 := s) in R2 end.
  eassert (V2 : sstep vin vout s2 _).
  { apply (SVote vin vout s2 2 1 1); [dec|dec|dec|dec| |right; split; dec].
    intros r [E|[]] A B. subst r. reflexivity. }
  assert (R3 := areach_step vin vout _ _ R2 (AProto vin vout _ _ [] V2)). clear V2.
  match type of R3 with areach _ _ (?s, _) => set (s3 := s) in R3 end.
  eassert (V4 : sstep vin vout s3 _).
  { apply (SVote vin vout s3 4 1 1); [dec|dec|dec|dec| |right; split; dec].
    intros r [E|[E|[]]] A B; subst r; reflexivity. }
  assert (R3b := areach_step vin vout _ _ R3 (AProto vin vout _ _ [] V4)). clear V4.
  match type of R3b with areach _ _ (?s, _) => set (s3b := s) in R3b end.
  eassert (B : sstep vin vout s3b _).
  { eapply (SBecomeLeader vin vout s3b 1 1); [dec|dec|dec|reflexivity| |reflexivity].
    apply (BecomeLeader (sg s3b) 1 1). dec. }
  assert (R4 := areach_step vin vout _ _ R3b (AProto vin vout _ _ [] B)). clear B.
  match type of R4 with areach _ _ (?s, _) => set (s4 := s) in R4 end.
  eassert (A : sstep vin vout s4 _).
  { eapply (SLeaderAppend vin vout s4 1 1 7); [dec|dec|dec|dec|reflexivity]. }
  assert (R5 := areach_step vin vout _ _ R4 (AProto vin vout _ _ [] A)). clear A.
  match type of R5 with areach _ _ (?s, _) => set (s5 := s) in R5 end.
  eassert (F : sstep vin vout s5 _).
  { eapply (SFollowerAppend vin vout s5 2 1 0%nat 1%nat 0); [dec|dec|dec|dec|reflexivity]. }
  assert (R6 := areach_step vin vout _ _ R5 (AProto vin vout _ _ [] F)). clear F.
  match type of R6 with areach _ _ (?s, _) => set (s6 := s) in R6 end.
  eassert (F : sstep vin vout s6 _).
  { eapply (SFollowerAppend vin vout s6 4 1 0%nat 1%nat 0); [dec|dec|dec|dec|reflexivity]. }
  assert (R6b := areach_step vin vout _ _ R6 (AProto vin vout _ _ [] F)). clear F.
  match type of R6b with areach _ _ (?s, _) => set (s6b := s) in R6b end.
  eassert (K1 : sstep vin vout s6b _) by (apply (SAck vin vout s6b 1 1 1%nat); dec).
  assert (R7 := areach_step vin vout _ _ R6b (AProto vin vout _ _ [] K1)). clear K1.
  match type of R7 with areach _ _ (?s, _) => set (s7 := s) in R7 end.
  eassert (K2 : sstep vin vout s7 _) by (apply (SAck vin vout s7 2 1 1%nat); dec).
  assert (R8 := areach_step vin vout _ _ R7 (AProto vin vout _ _ [] K2)). clear K2.
  match type of R8 with areach _ _ (?s, _) => set (s8 := s) in R8 end.
  eassert (K4 : sstep vin vout s8 _) by (apply (SAck vin vout s8 4 1 1%nat); dec).
  assert (R8b := areach_step vin vout _ _ R8 (AProto vin vout _ _ [] K4)). clear K4.
  match type of R8b with areach _ _ (?s, _) => set (s8b := s) in R8b end.
  eassert (C : sstep vin vout s8b _).
  { apply (SCommit vin vout s8b 1 0%nat (1, 7)); [dec|dec|dec|reflexivity]. }
  assert (R9 := areach_step vin vout _ _ R8b (AProto vin vout _ _ [] C)). clear C.
  match type of R9 with areach _ _ (?s, _) => set (s9 := s) in R9 end.
  assert (CL : forall m, m = 1 \/ m = 4 -> can_learn s9 m 0%nat 1).
  { intros m Hm. exists 0%nat, (1, 7). destruct Hm; subst m; repeat split; dec; left; reflexivity. }
  assert (R10 := areach_step vin vout _ _ R9 (AApply vin vout s9 [] 1 0%nat 1 (1, 7) (CL 1 (or_introl eq_refl)) eq_refl)).
  assert (R11 := areach_step vin vout _ _ R10 (AApply vin vout s9 _ 4 0%nat 1 (1, 7) (CL 4 (or_intror eq_refl)) eq_refl)).
  eexists. split; [exact R11|]. cbn. auto.
Qed.

Print Assumptions safety_joint_nonvacuous.
