(* SafetyEx.v: the hypotheses of the safety theorems are satisfiable: a concrete execution of
   three voters that elects a leader, replicates and commits an entry, and hands it to the state
   machine on two nodes. *)
From Coq Require Import List NArith Bool Lia Arith.
From RaftV Require Import LogMatching Safety.
Import ListNotations.
Local Open Scope N_scope.

Definition vs3 : list N := [1; 2; 3].
Definition s0 : sstate := mkS (mkG (fun _ => []) (fun _ => false)) (fun _ => 0) [] [] (fun _ => []) (fun _ => None) [] (fun _ => false).

Ltac dec := cbv; try congruence; try reflexivity; try lia.

Example safety_nonvacuous :
  exists p, areach vs3 [] p /\ In (1, 0%nat, (1, 7)) (snd p) /\ In (2, 0%nat, (1, 7)) (snd p).
Proof.
  assert (R0 : areach vs3 [] (s0, [])).
  { apply areach_init. repeat split; intros; reflexivity. }
  (* node 1 campaigns in term 1, votes for itself, node 2 votes for it *)
  assert (R1 := areach_step vs3 [] _ _ R0 (AProto vs3 [] _ _ [] (SCampaign vs3 [] s0 1 1 ltac:(dec)))).
  match type of R1 with areach _ _ (?s, _) => set (s1 := s) in R1 end.
  eassert (V1 : sstep vs3 [] s1 _).
  { apply (SVote vs3 [] s1 1 1 1); [dec|dec|dec|dec|intros r []|right; split; dec]. }
  assert (R2 := areach_step vs3 [] _ _ R1 (AProto vs3 [] _ _ [] V1)). clear V1.
  match type of R2 with areach _ _ (?s, _) => set (s2 := s) in R2 end.
  eassert (V2 : sstep vs3 [] s2 _).
  { apply (SVote vs3 [] s2 2 1 1); [dec|dec|dec|dec| |right; split; dec].
    intros r [E|[]] A B. subst r. reflexivity. }
  assert (R3 := areach_step vs3 [] _ _ R2 (AProto vs3 [] _ _ [] V2)). clear V2.
  match type of R3 with areach _ _ (?s, _) => set (s3 := s) in R3 end.
  (* it becomes leader of term 1 and appends payload 7 *)
  eassert (B : sstep vs3 [] s3 _).
  { eapply (SBecomeLeader vs3 [] s3 1 1); [dec|dec|dec|reflexivity| |reflexivity].
    apply (BecomeLeader (sg s3) 1 1). dec. }
  assert (R4 := areach_step vs3 [] _ _ R3 (AProto vs3 [] _ _ [] B)). clear B.
  match type of R4 with areach _ _ (?s, _) => set (s4 := s) in R4 end.
  eassert (A : sstep vs3 [] s4 _).
  { eapply (SLeaderAppend vs3 [] s4 1 1 7); [dec|dec|dec|dec|reflexivity]. }
  assert (R5 := areach_step vs3 [] _ _ R4 (AProto vs3 [] _ _ [] A)). clear A.
  match type of R5 with areach _ _ (?s, _) => set (s5 := s) in R5 end.
  (* node 2 accepts the entry; both acknowledge; the leadership commits position 0 *)
  eassert (F : sstep vs3 [] s5 _).
  { eapply (SFollowerAppend vs3 [] s5 2 1 0%nat 1%nat 0); [dec|dec|dec|dec|reflexivity]. }
  assert (R6a := areach_step vs3 [] _ _ R5 (AProto vs3 [] _ _ [] F)). clear F.
  match type of R6a with areach _ _ (?s, _) => set (s6a := s) in R6a end.
  (* node 2 crashes before acknowledging, loses the entry, and accepts it again after the restart *)
  eassert (Z : sstep vs3 [] s6a _).
  { eapply (SLose vs3 [] s6a 2 0%nat); [intros t k' []|reflexivity]. }
  assert (R6b := areach_step vs3 [] _ _ R6a (AProto vs3 [] _ _ [] Z)). clear Z.
  match type of R6b with areach _ _ (?s, _) => set (s6b := s) in R6b end.
  eassert (F : sstep vs3 [] s6b _).
  { eapply (SFollowerAppend vs3 [] s6b 2 1 0%nat 1%nat 0); [dec|dec|dec|dec|reflexivity]. }
  assert (R6 := areach_step vs3 [] _ _ R6b (AProto vs3 [] _ _ [] F)). clear F.
  match type of R6 with areach _ _ (?s, _) => set (s6 := s) in R6 end.
  eassert (K1 : sstep vs3 [] s6 _) by (apply (SAck vs3 [] s6 1 1 1%nat); dec).
  assert (R7 := areach_step vs3 [] _ _ R6 (AProto vs3 [] _ _ [] K1)). clear K1.
  match type of R7 with areach _ _ (?s, _) => set (s7 := s) in R7 end.
  eassert (K2 : sstep vs3 [] s7 _) by (apply (SAck vs3 [] s7 2 1 1%nat); dec).
  assert (R8 := areach_step vs3 [] _ _ R7 (AProto vs3 [] _ _ [] K2)). clear K2.
  match type of R8 with areach _ _ (?s, _) => set (s8 := s) in R8 end.
  eassert (C : sstep vs3 [] s8 _).
  { apply (SCommit vs3 [] s8 1 0%nat (1, 7)); [dec|dec|dec|reflexivity]. }
  assert (R9 := areach_step vs3 [] _ _ R8 (AProto vs3 [] _ _ [] C)). clear C.
  match type of R9 with areach _ _ (?s, _) => set (s9 := s) in R9 end.
  (* both nodes hand position 0 to their state machines *)
  assert (CL : forall m, m = 1 \/ m = 2 -> can_learn s9 m 0%nat 1).
  { intros m Hm. exists 0%nat, (1, 7). destruct Hm; subst m; repeat split; dec; left; reflexivity. }
  assert (R10 := areach_step vs3 [] _ _ R9 (AApply vs3 [] s9 [] 1 0%nat 1 (1, 7) (CL 1 (or_introl eq_refl)) eq_refl)).
  assert (R11 := areach_step vs3 [] _ _ R10 (AApply vs3 [] s9 _ 2 0%nat 1 (1, 7) (CL 2 (or_intror eq_refl)) eq_refl)).
  eexists. split; [exact R11|]. cbn. auto.
Qed.

Print Assumptions safety_nonvacuous.
