(* Election.v (protocol level): Election Safety for any history of vote grants and
   leaderships that obeys the node-local rules proved on the node model:
     - a voter grants its real vote to at most one candidate per term (C07 / C02_one_vote),
     - a node leads term t only with grants of term t from a majority of each voter set of
       its configuration (C02_leader_needs_quorum, C12),
     - the configurations of any two nodes that lead the same term have a voter set in common
       on which both majorities are taken (static membership: the same configuration; with
       reconfiguration: adjacent configurations, section 6 / C10).
   No bound on nodes, terms or history length. *)
From Coq Require Import List NArith Bool Lia.
From RaftV Require Import Base Quorum QuorumProofs.
Import ListNotations.
Open Scope N_scope.

(* a grant: voter v voted for candidate c in term t *)
Record grant := mkGrant { g_voter : N; g_term : N; g_cand : N }.

Definition granted (gs : list grant) (v t c : N) : bool :=
  existsb (fun g => N.eqb (g_voter g) v && N.eqb (g_term g) t && N.eqb (g_cand g) c) gs.

(* one vote per term and voter *)
Definition votes_unique (gs : list grant) : Prop :=
  forall g1 g2, In g1 gs -> In g2 gs -> g_voter g1 = g_voter g2 -> g_term g1 = g_term g2 ->
                g_cand g1 = g_cand g2.

(* c holds grants of term t from a strict majority of the voter list vs *)
Definition has_majority (gs : list grant) (vs : list N) (t c : N) : Prop :=
  (2 * length (filter (fun v => granted gs v t c) vs) > length vs)%nat.

Lemma granted_In gs v t c : granted gs v t c = true -> In (mkGrant v t c) gs.
Proof.
  unfold granted. intros H. apply existsb_exists in H. destruct H as [g [Hin Hg]].
  apply andb_true_iff in Hg. destruct Hg as [Hg C]. apply andb_true_iff in Hg. destruct Hg as [V T].
  apply N.eqb_eq in V, T, C. destruct g; cbn in *; subst. exact Hin.
Qed.

(* Election Safety: two candidates with majorities of the same voter set in the same term
   are the same candidate. *)
Theorem election_safety gs vs t c1 c2 :
  votes_unique gs -> has_majority gs vs t c1 -> has_majority gs vs t c2 -> c1 = c2.
Proof.
  intros U M1 M2. unfold has_majority in *.
  destruct (majorities_intersect (fun v => granted gs v t c1) (fun v => granted gs v t c2) vs M1 M2)
    as [v [_ [G1 G2]]].
  apply granted_In in G1. apply granted_In in G2.
  exact (U _ _ G1 G2 eq_refl eq_refl).
Qed.

(* joint configurations: a winner needs a majority of each non-empty half; two winners whose
   configurations share a non-empty half coincide *)
Definition wins (gs : list grant) (c0 c1 : list N) (t c : N) : Prop :=
  (c0 = [] \/ has_majority gs c0 t c) /\ (c1 = [] \/ has_majority gs c1 t c).

Theorem election_safety_joint gs a0 a1 b0 b1 t c1 c2 shared :
  votes_unique gs -> shared <> [] ->
  (shared = a0 \/ shared = a1) -> (shared = b0 \/ shared = b1) ->
  wins gs a0 a1 t c1 -> wins gs b0 b1 t c2 -> c1 = c2.
Proof.
  intros U NE SA SB [WA0 WA1] [WB0 WB1].
  assert (MA : has_majority gs shared t c1).
  { destruct SA as [-> | ->]; [destruct WA0|destruct WA1]; congruence. }
  assert (MB : has_majority gs shared t c2).
  { destruct SB as [-> | ->]; [destruct WB0|destruct WB1]; congruence. }
  eapply election_safety; eassumption.
Qed.

(* the decision function of the code (C12) implies [wins]: a VoteWon tally over recorded
   votes that all stem from grants *)
Theorem vote_won_wins gs c0 c1 votes t c :
  (forall v, alookup votes v = Some true -> granted gs v t c = true) ->
  joint_vote c0 c1 votes = VoteWon -> wins gs c0 c1 t c.
Proof.
  intros G W. destruct (joint_vote_spec c0 c1 votes) as [HW _]. apply HW in W. destruct W as [W0 W1].
  assert (L : forall vs, half_won vs votes -> vs = [] \/ has_majority gs vs t c).
  { intros vs [E|Y]; [left; exact E|right]. unfold yes_majority, count_yes, has_majority in *.
    assert (LE : (length (filter (fun id => match alookup votes id with Some true => true | _ => false end) vs) <=
                  length (filter (fun v => granted gs v t c) vs))%nat).
    { clear Y. induction vs as [|v vs IH]; cbn; [lia|].
      destruct (alookup votes v) as [[|]|] eqn:A; cbn.
      - rewrite (G v A). cbn. lia.
      - destruct (granted gs v t c); cbn; lia.
      - destruct (granted gs v t c); cbn; lia. }
    lia. }
  split; apply L; assumption.
Qed.
