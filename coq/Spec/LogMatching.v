(* LogMatching.v (protocol level): the Log Matching property for any network of nodes whose
   logs evolve by the replication rules that the node model implements:
     - at most one leadership per term (Spec/Election.v), a leader starts from its own log,
     - a leader only appends entries of its term at the end of its log (appendEntry),
     - a follower accepts a slice of the leader's log only if the entry before the slice
       matches by (index, term), keeps its own entries while they match by term, truncates at
       the first mismatch and appends the rest (maybeAppend / findConflict / truncateAndAppend),
     - a crash may lose a suffix of a log (the not yet persisted tail), never change it.
   Messages may be delayed, duplicated, reordered or lost: a follower step may use any
   slice of the (append-only) ghost log of any leadership.
   No bound on nodes, terms, log lengths or steps. *)
From Coq Require Import List NArith Bool Lia Arith.
Import ListNotations.

Definition aent := (N * N)%type.            (* (term, payload) ; the index is the position *)

Inductive key := KNode (n : N) | KLead (t : N).   (* a node's log / the ghost log of leadership t *)

Definition key_eqb (a b : key) : bool :=
  match a, b with
  | KNode x, KNode y => N.eqb x y
  | KLead x, KLead y => N.eqb x y
  | _, _ => false
  end.

Lemma key_eqb_spec a b : reflect (a = b) (key_eqb a b).
Proof.
  destruct a as [x|x], b as [y|y]; cbn; try (constructor; congruence);
    destruct (N.eqb_spec x y); constructor; congruence.
Qed.

Record gstate := mkG { logs : key -> list aent; active : N -> bool }.

Definition upd (f : key -> list aent) (k : key) (v : list aent) : key -> list aent :=
  fun k' => if key_eqb k' k then v else f k'.

Definition agree (k : nat) (a b : list aent) : Prop := firstn k a = firstn k b.

(* ---------- the follower rule ---------- *)

(* position in [ents] of the first entry that the follower does not already hold with the
   same term ([tail] is the follower's log after the matched prefix) *)
Fixpoint first_conflict (tail ents : list aent) {struct ents} : option nat :=
  match ents with
  | [] => None
  | e :: ents' =>
      match tail with
      | [] => Some 0%nat
      | x :: tail' =>
          if N.eqb (fst x) (fst e)
          then match first_conflict tail' ents' with Some c => Some (S c) | None => None end
          else Some 0%nat
      end
  end.

Definition fappend (log : list aent) (prev : nat) (ents : list aent) : list aent :=
  match first_conflict (skipn prev log) ents with
  | None => log
  | Some c => firstn (prev + c) log ++ skipn c ents
  end.

(* term of the entry before position [prev] (0 for the empty prefix) *)
Definition prev_term (l : list aent) (prev : nat) : option N :=
  match prev with
  | O => Some 0%N
  | S p => match nth_error l p with Some e => Some (fst e) | None => None end
  end.

Inductive gstep : gstate -> gstate -> Prop :=
| BecomeLeader g n t :
    active g t = false ->
    gstep g (mkG (upd (logs g) (KLead t) (logs g (KNode n)))
                 (fun t' => if N.eqb t' t then true else active g t'))
| LeaderAppend g n t x :
    active g t = true -> logs g (KNode n) = logs g (KLead t) ->
    let l := logs g (KLead t) ++ [(t, x)] in
    gstep g (mkG (upd (upd (logs g) (KLead t) l) (KNode n) l) (active g))
| FollowerAppend g m s prev cnt pt :
    active g s = true ->
    prev_term (logs g (KNode m)) prev = Some pt ->
    prev_term (logs g (KLead s)) prev = Some pt ->
    gstep g (mkG (upd (logs g) (KNode m)
                      (fappend (logs g (KNode m)) prev (firstn cnt (skipn prev (logs g (KLead s))))))
                 (active g))
| LoseSuffix g m k :
    gstep g (mkG (upd (logs g) (KNode m) (firstn k (logs g (KNode m)))) (active g)).

(* ---------- the invariant ---------- *)

(* every entry of every log (node or ghost) belongs to an active leadership, and the log
   agrees with that leadership's ghost log up to and including the entry *)
Definition inv (g : gstate) : Prop :=
  forall k i e, nth_error (logs g k) i = Some e ->
    active g (fst e) = true /\ agree (S i) (logs g k) (logs g (KLead (fst e))).

Definition init (g : gstate) : Prop := forall k, logs g k = [].

Lemma inv_init g : init g -> inv g.
Proof. intros I k i e H. rewrite I in H. destruct i; discriminate. Qed.

(* ---------- list facts ---------- *)

Lemma firstn_add {A} (l : list A) : forall a b, firstn (a + b) l = firstn a l ++ firstn b (skipn a l).
Proof.
  induction l as [|x l IH]; intros a b.
  - rewrite !firstn_nil, skipn_nil, firstn_nil. reflexivity.
  - destruct a; cbn; [reflexivity|]. rewrite IH. reflexivity.
Qed.

Lemma skipn_skipn {A} (l : list A) : forall a b, skipn a (skipn b l) = skipn (a + b) l.
Proof.
  induction l as [|x l IH]; intros a b.
  - rewrite !skipn_nil. reflexivity.
  - destruct b; [rewrite Nat.add_0_r; reflexivity|].
    replace (a + S b)%nat with (S (a + b)) by lia. cbn [skipn]. apply IH.
Qed.

Lemma nth_error_firstn {A} (l : list A) : forall k i, (i < k)%nat -> nth_error (firstn k l) i = nth_error l i.
Proof.
  induction l as [|x l IH]; intros k i L; destruct k, i; cbn; try reflexivity; try lia.
  apply IH. lia.
Qed.

Lemma agree_refl k a : agree k a a.
Proof. reflexivity. Qed.
Lemma agree_sym k a b : agree k a b -> agree k b a.
Proof. unfold agree. congruence. Qed.
Lemma agree_trans k a b c : agree k a b -> agree k b c -> agree k a c.
Proof. unfold agree. congruence. Qed.

Lemma agree_le k k' a b : (k' <= k)%nat -> agree k a b -> agree k' a b.
Proof.
  unfold agree. intros L H. replace k' with (Nat.min k' k) by lia.
  rewrite <- !firstn_firstn. rewrite H. reflexivity.
Qed.

Lemma agree_nth k a b i : agree k a b -> (i < k)%nat -> nth_error a i = nth_error b i.
Proof.
  unfold agree. intros H L.
  rewrite <- (nth_error_firstn a k i L), <- (nth_error_firstn b k i L), H. reflexivity.
Qed.

Lemma agree_len k a b : agree k a b -> (k <= length a)%nat -> (k <= length b)%nat.
Proof.
  unfold agree. intros H L. assert (E : length (firstn k a) = length (firstn k b)) by (rewrite H; reflexivity).
  rewrite !firstn_length in E. lia.
Qed.

Lemma agree_app_r k a b x : agree k a b -> (k <= length b)%nat -> agree k a (b ++ x).
Proof. unfold agree. intros H L. rewrite firstn_app. replace (k - length b)%nat with 0%nat by lia. cbn. rewrite app_nil_r. exact H. Qed.

Lemma agree_app_l k a x : (k <= length a)%nat -> agree k (a ++ x) a.
Proof. unfold agree. intros L. rewrite firstn_app. replace (k - length a)%nat with 0%nat by lia. cbn. rewrite app_nil_r. reflexivity. Qed.

Lemma agree_S k a b e :
  agree k a b -> nth_error a k = Some e -> nth_error b k = Some e -> agree (S k) a b.
Proof.
  unfold agree. revert a b. induction k as [|k IH]; intros a b H A B.
  - destruct a, b; cbn in *; try discriminate. congruence.
  - destruct a as [|x a], b as [|y b]; cbn in *; try discriminate.
    inversion H; subst. f_equal. apply IH; assumption.
Qed.

Lemma nth_error_Some_lt {A} (l : list A) i e : nth_error l i = Some e -> (i < length l)%nat.
Proof. intros H. apply nth_error_Some. congruence. Qed.

Lemma agree_firstn k j a : (k <= j)%nat -> agree k (firstn j a) a.
Proof. unfold agree. intros L. rewrite firstn_firstn. replace (Nat.min k j) with k by lia. reflexivity. Qed.

(* ---------- the follower rule against the invariant ---------- *)

(* If the follower log [l] and the ghost log [L] both satisfy the invariant and match by term
   before [prev], they are equal up to [prev]. *)
Lemma prev_match_agree g km s prev pt :
  inv g ->
  prev_term (logs g km) prev = Some pt -> prev_term (logs g (KLead s)) prev = Some pt ->
  agree prev (logs g km) (logs g (KLead s)).
Proof.
  intros I P1 P2. destruct prev as [|p]; [reflexivity|]. cbn in P1, P2.
  destruct (nth_error (logs g km) p) as [e1|] eqn:E1; [|discriminate].
  destruct (nth_error (logs g (KLead s)) p) as [e2|] eqn:E2; [|discriminate].
  injection P1 as P1. injection P2 as P2.
  destruct (I _ _ _ E1) as [_ A1]. destruct (I _ _ _ E2) as [_ A2].
  rewrite P1 in A1. rewrite P2 in A2. eapply agree_trans; [exact A1|apply agree_sym; exact A2].
Qed.

(* the core of maybeAppend: walking the slice while terms match keeps the two logs equal *)
Lemma first_conflict_spec g km s :
  inv g ->
  forall cnt prev,
  agree prev (logs g km) (logs g (KLead s)) ->
  let ents := firstn cnt (skipn prev (logs g (KLead s))) in
  match first_conflict (skipn prev (logs g km)) ents with
  | None => agree (prev + length ents) (logs g km) (logs g (KLead s))
  | Some c => agree (prev + c) (logs g km) (logs g (KLead s)) /\ (c <= length ents)%nat
  end.
Proof.
  intros I cnt. induction cnt as [|cnt IH]; intros prev A; cbn zeta.
  - cbn. rewrite Nat.add_0_r. exact A.
  - destruct (skipn prev (logs g (KLead s))) as [|e rest] eqn:SL.
    + cbn. rewrite Nat.add_0_r. exact A.
    + cbn [firstn first_conflict].
      assert (NL : nth_error (logs g (KLead s)) prev = Some e).
      { rewrite <- (firstn_skipn prev (logs g (KLead s))), SL.
        assert (LP : (prev <= length (logs g (KLead s)))%nat).
        { destruct (Nat.le_gt_cases prev (length (logs g (KLead s)))) as [Q|Q]; [exact Q|].
          rewrite skipn_all2 in SL by lia. discriminate. }
        rewrite nth_error_app2; rewrite firstn_length; [|lia].
        replace (prev - Nat.min prev (length (logs g (KLead s))))%nat with 0%nat by lia. reflexivity. }
      assert (SR : skipn (S prev) (logs g (KLead s)) = rest).
      { replace (S prev) with (1 + prev)%nat by lia. rewrite <- skipn_skipn, SL. reflexivity. }
      destruct (skipn prev (logs g km)) as [|x tail] eqn:SM.
      * rewrite Nat.add_0_r. split; [exact A|lia].
      * assert (NM : nth_error (logs g km) prev = Some x).
        { rewrite <- (firstn_skipn prev (logs g km)), SM.
          assert (LP : (prev <= length (logs g km))%nat).
          { destruct (Nat.le_gt_cases prev (length (logs g km))) as [Q|Q]; [exact Q|].
            rewrite skipn_all2 in SM by lia. discriminate. }
          rewrite nth_error_app2; rewrite firstn_length; [|lia].
          replace (prev - Nat.min prev (length (logs g km)))%nat with 0%nat by lia. reflexivity. }
        assert (SMR : skipn (S prev) (logs g km) = tail).
        { replace (S prev) with (1 + prev)%nat by lia. rewrite <- skipn_skipn, SM. reflexivity. }
        destruct (N.eqb_spec (fst x) (fst e)) as [TE|TN].
        -- (* same term at position prev: the invariant makes the entries equal *)
           destruct (I _ _ _ NM) as [_ A1]. destruct (I _ _ _ NL) as [_ A2]. rewrite <- TE in A2.
           assert (A' : agree (S prev) (logs g km) (logs g (KLead s)))
             by (eapply agree_trans; [exact A1|apply agree_sym; exact A2]).
           specialize (IH (S prev) A'). cbn zeta in IH. rewrite SR, SMR in IH.
           destruct (first_conflict tail (firstn cnt rest)) as [c|].
           ++ destruct IH as [IH1 IH2]. replace (prev + S c)%nat with (S prev + c)%nat by lia.
              split; [exact IH1|cbn; lia].
           ++ cbn [length]. replace (prev + S (length (firstn cnt rest)))%nat with (S prev + length (firstn cnt rest))%nat by lia.
              exact IH.
        -- rewrite Nat.add_0_r. split; [exact A|lia].
Qed.

(* result of the follower rule: unchanged, or a prefix of the leadership's ghost log *)
Lemma fappend_result g km s prev cnt pt :
  inv g ->
  prev_term (logs g km) prev = Some pt -> prev_term (logs g (KLead s)) prev = Some pt ->
  let L := logs g (KLead s) in
  let l' := fappend (logs g km) prev (firstn cnt (skipn prev L)) in
  l' = logs g km \/ (exists q, l' = firstn q L).
Proof.
  intros I P1 P2 L l'. subst l'. unfold fappend.
  pose proof (prev_match_agree g km s prev pt I P1 P2) as A.
  pose proof (first_conflict_spec g km s I cnt prev A) as FC. cbn zeta in FC. fold L in FC |- *.
  destruct (first_conflict (skipn prev (logs g km)) (firstn cnt (skipn prev L))) as [c|]; [|left; reflexivity].
  destruct FC as [AC LC]. right.
  exists (prev + length (firstn cnt (skipn prev L)))%nat.
  unfold agree in AC. rewrite AC.
  set (ents := firstn cnt (skipn prev L)) in *.
  (* firstn (prev+c) L ++ skipn c ents = firstn (prev + |ents|) L *)
  assert (EL : ents = firstn (length ents) (skipn prev L)).
  { subst ents. rewrite firstn_length.
    destruct (Nat.le_gt_cases cnt (length (skipn prev L))).
    - replace (Nat.min cnt (length (skipn prev L))) with cnt by lia. reflexivity.
    - replace (Nat.min cnt (length (skipn prev L))) with (length (skipn prev L)) by lia.
      rewrite !firstn_all2 by lia. reflexivity. }
  remember (length ents) as n eqn:EN. clearbody ents.
  replace (prev + n)%nat with ((prev + c) + (n - c))%nat by lia.
  rewrite (firstn_add L (prev + c) (n - c)). f_equal.
  rewrite EL. rewrite skipn_firstn_comm, skipn_skipn.
  replace (c + prev)%nat with (prev + c)%nat by lia. reflexivity.
Qed.

(* ---------- preservation ---------- *)

Lemma inv_prefix_of_lead g s q :
  inv g -> forall i e, nth_error (firstn q (logs g (KLead s))) i = Some e ->
  active g (fst e) = true /\ agree (S i) (firstn q (logs g (KLead s))) (logs g (KLead (fst e))).
Proof.
  intros I i e H.
  assert (LI : (i < q)%nat).
  { apply nth_error_Some_lt in H. rewrite firstn_length in H. lia. }
  rewrite nth_error_firstn in H by exact LI.
  destruct (I _ _ _ H) as [A B]. split; [exact A|].
  eapply agree_trans; [apply agree_firstn; lia|exact B].
Qed.

Theorem inv_step g g' : inv g -> gstep g g' -> inv g'.
Proof.
  intros I S. destruct S as [g n t NA|g n t x AC EQ l|g m s prev cnt pt AC P1 P2|g m k0].
  - (* BecomeLeader *)
    intros k i e H. cbn [logs active] in *. unfold upd in *.
    assert (NT : forall k0 i0 e0, nth_error (logs g k0) i0 = Some e0 -> fst e0 <> t).
    { intros k0 i0 e0 H0 E. destruct (I _ _ _ H0) as [A _]. rewrite E in A. congruence. }
    destruct (key_eqb_spec k (KLead t)) as [->|NK].
    + pose proof (NT _ _ _ H) as N1. destruct (I _ _ _ H) as [A B].
      destruct (N.eqb_spec (fst e) t); [contradiction|]. split; [exact A|].
      destruct (key_eqb_spec (KLead (fst e)) (KLead t)) as [E|_]; [inversion E; contradiction|]. exact B.
    + pose proof (NT _ _ _ H) as N1. destruct (I _ _ _ H) as [A B].
      destruct (N.eqb_spec (fst e) t); [contradiction|]. split; [exact A|].
      destruct (key_eqb_spec (KLead (fst e)) (KLead t)) as [E|_]; [inversion E; contradiction|]. exact B.
  - (* LeaderAppend *)
    intros k i e H. cbn [logs active] in *. unfold upd in *.
    set (L := logs g (KLead t)) in *.
    assert (NEW : forall j e0, nth_error l j = Some e0 ->
              active g (fst e0) = true /\
              agree (S j) l (if key_eqb (KLead (fst e0)) (KNode n) then l
                             else if key_eqb (KLead (fst e0)) (KLead t) then l else logs g (KLead (fst e0)))).
    { intros j e0 H0. cbn [key_eqb]. subst l.
      destruct (Nat.lt_ge_cases j (length L)) as [LT|GE].
      - rewrite nth_error_app1 in H0 by exact LT. destruct (I _ _ _ H0) as [A B]. split; [exact A|].
        destruct (N.eqb_spec (fst e0) t); [reflexivity|].
        eapply agree_trans; [apply agree_app_l; lia|exact B].
      - rewrite nth_error_app2 in H0 by exact GE. destruct (j - length L)%nat eqn:D; cbn in H0; [|destruct n0; discriminate].
        inversion H0; subst. cbn [fst]. split; [exact AC|]. rewrite N.eqb_refl. reflexivity. }
    destruct (key_eqb_spec k (KNode n)) as [->|NK1]; [apply NEW; exact H|].
    destruct (key_eqb_spec k (KLead t)) as [->|NK2]; [apply NEW; exact H|].
    destruct (I _ _ _ H) as [A B]. split; [exact A|]. cbn [key_eqb].
    destruct (N.eqb_spec (fst e) t) as [E|NE]; [|exact B].
    rewrite E in B. fold L in B. subst l. apply agree_app_r; [exact B|].
    apply (agree_len _ _ _ B). apply nth_error_Some_lt in H. lia.
  - (* FollowerAppend *)
    intros k i e H. cbn [logs active] in *. unfold upd in *. cbn [key_eqb].
    destruct (key_eqb_spec k (KNode m)) as [->|NK].
    + destruct (fappend_result g (KNode m) s prev cnt pt I P1 P2) as [E|[q E]]; cbn zeta in E; rewrite E in H |- *.
      * exact (I _ _ _ H).
      * apply inv_prefix_of_lead; assumption.
    + destruct k; cbn [key_eqb]; exact (I _ _ _ H).
  - (* LoseSuffix *)
    intros k i e H. cbn [logs active] in *. unfold upd in *. cbn [key_eqb].
    destruct (key_eqb_spec k (KNode m)) as [->|NK].
    + assert (LI : (i < k0)%nat).
      { apply nth_error_Some_lt in H. rewrite firstn_length in H. lia. }
      rewrite nth_error_firstn in H by exact LI.
      destruct (I _ _ _ H) as [A B]. split; [exact A|].
      eapply agree_trans; [apply agree_firstn; lia|exact B].
    + destruct k; cbn [key_eqb]; exact (I _ _ _ H).
Qed.

Inductive reach : gstate -> Prop :=
| reach_init g : init g -> reach g
| reach_step g g' : reach g -> gstep g g' -> reach g'.

Theorem reach_inv g : reach g -> inv g.
Proof. induction 1; [apply inv_init; assumption|eapply inv_step; eassumption]. Qed.

(* Log Matching: if two logs hold entries with the same term at the same position, the logs
   are identical up to and including that position. *)
Theorem log_matching g a b i ea eb :
  reach g ->
  nth_error (logs g (KNode a)) i = Some ea -> nth_error (logs g (KNode b)) i = Some eb ->
  fst ea = fst eb ->
  firstn (S i) (logs g (KNode a)) = firstn (S i) (logs g (KNode b)).
Proof.
  intros R A B T. apply reach_inv in R.
  destruct (R _ _ _ A) as [_ HA]. destruct (R _ _ _ B) as [_ HB]. rewrite T in HA.
  exact (agree_trans _ _ _ _ HA (agree_sym _ _ _ HB)).
Qed.
