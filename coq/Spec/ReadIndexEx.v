(* ReadIndexEx.v: the hypotheses of the protocol-level ReadIndex theorem are satisfiable: the
   execution of SafetyEx (election, replication, a crash, commit) followed by a read request at the
   leader and heartbeat answers from a majority. *)
From Coq Require Import List NArith Bool Lia Arith.
From RaftV Require Import LogMatching Safety SafetyEx ReadIndex.
Import ListNotations.
Local Open Scope N_scope.

Example read_index_nonvacuous :
  exists p r, rreach vs3 [] p /\ In r (snd p) /\ majority vs3 [] (has_acker r) /\ rd_c0 r <> [].
Proof.
  assert (R0 : rreach vs3 [] (s0, [])).
  { apply rreach_init. repeat split; intros; reflexivity. }
  (* node 1 campaigns in term 1, votes for itself, node 2 votes for it *)
  assert (R1 := rreach_step vs3 [] _ _ R0 (RProto vs3 [] _ _ [] (SCampaign vs3 [] s0 1 1 ltac:(dec)))).
  match type of R1 with rreach _ _ (?s, _) => set (s1 := s) in R1 end.
  eassert (V1 : sstep vs3 [] s1 _).
  { apply (SVote vs3 [] s1 1 1 1); [dec|dec|dec|dec|intros r []|right; split; dec]. }
  assert (R2 := rreach_step vs3 [] _ _ R1 (RProto vs3 [] _ _ [] V1)). clear V1.
  match type of R2 with rreach _ _ (?s, _) => set (s2 := s) in R2 end.
  eassert (V2 : sstep vs3 [] s2 _).
  { apply (SVote vs3 [] s2 2 1 1); [dec|dec|dec|dec| |right; split; dec].
    intros r [E|[]] A B. subst r. reflexivity. }
  assert (R3 := rreach_step vs3 [] _ _ R2 (RProto vs3 [] _ _ [] V2)). clear V2.
  match type of R3 with rreach _ _ (?s, _) => set (s3 := s) in R3 end.
  (* it becomes leader of term 1 and appends payload 7 *)
  eassert (B : sstep vs3 [] s3 _).
  { eapply (SBecomeLeader vs3 [] s3 1 1); [dec|dec|dec|reflexivity| |reflexivity].
    apply (BecomeLeader (sg s3) 1 1). dec. }
  assert (R4 := rreach_step vs3 [] _ _ R3 (RProto vs3 [] _ _ [] B)). clear B.
  match type of R4 with rreach _ _ (?s, _) => set (s4 := s) in R4 end.
  eassert (A : sstep vs3 [] s4 _).
  { eapply (SLeaderAppend vs3 [] s4 1 1 7); [dec|dec|dec|dec|reflexivity]. }
  assert (R5 := rreach_step vs3 [] _ _ R4 (RProto vs3 [] _ _ [] A)). clear A.
  match type of R5 with rreach _ _ (?s, _) => set (s5 := s) in R5 end.
  (* node 2 accepts the entry; both acknowledge; the leadership commits position 0 *)
  eassert (F : sstep vs3 [] s5 _).
  { eapply (SFollowerAppend vs3 [] s5 2 1 0%nat 1%nat 0); [dec|dec|dec|dec|reflexivity]. }
  assert (R6a := rreach_step vs3 [] _ _ R5 (RProto vs3 [] _ _ [] F)). clear F.
  match type of R6a with rreach _ _ (?s, _) => set (s6a := s) in R6a end.
  (* node 2 crashes before acknowledging, loses the entry, and accepts it again after the restart *)
  eassert (Z : sstep vs3 [] s6a _).
  { eapply (SLose vs3 [] s6a 2 0%nat); [intros t k' []|reflexivity]. }
  assert (R6b := rreach_step vs3 [] _ _ R6a (RProto vs3 [] _ _ [] Z)). clear Z.
  match type of R6b with rreach _ _ (?s, _) => set (s6b := s) in R6b end.
  eassert (F : sstep vs3 [] s6b _).
  { eapply (SFollowerAppend vs3 [] s6b 2 1 0%nat 1%nat 0); [dec|dec|dec|dec|reflexivity]. }
  assert (R6 := rreach_step vs3 [] _ _ R6b (RProto vs3 [] _ _ [] F)). clear F.
  match type of R6 with rreach _ _ (?s, _) => set (s6 := s) in R6 end.
  eassert (K1 : sstep vs3 [] s6 _) by (apply (SAck vs3 [] s6 1 1 1%nat); dec).
  assert (R7 := rreach_step vs3 [] _ _ R6 (RProto vs3 [] _ _ [] K1)). clear K1.
  match type of R7 with rreach _ _ (?s, _) => set (s7 := s) in R7 end.
  eassert (K2 : sstep vs3 [] s7 _) by (apply (SAck vs3 [] s7 2 1 1%nat); dec).
  assert (R8 := rreach_step vs3 [] _ _ R7 (RProto vs3 [] _ _ [] K2)). clear K2.
  match type of R8 with rreach _ _ (?s, _) => set (s8 := s) in R8 end.
  eassert (C : sstep vs3 [] s8 _).
  { apply (SCommit vs3 [] s8 1 0%nat (1, 7)); [dec|dec|dec|reflexivity]. }
  assert (R9 := rreach_step vs3 [] _ _ R8 (RProto vs3 [] _ _ [] C)). clear C.
  match type of R9 with rreach _ _ (?s, _) => set (s9 := s) in R9 end.
  (* the leader takes a read request; nodes 1 and 2 answer the heartbeat *)
  assert (Q := rreach_step vs3 [] _ _ R9 (RRequest vs3 [] s9 [] 1 1 0%nat (1, 7) ltac:(dec) ltac:(dec) ltac:(left; reflexivity))).
  pose (r1 := mkRead 1 (commits s9) (tm s9) []).
  assert (H1 := rreach_step vs3 [] _ _ Q (RHeartbeatAck vs3 [] s9 [] r1 [] 1 ltac:(dec))).
  pose (r2 := mkRead 1 (commits s9) (tm s9) [1]).
  assert (H2 := rreach_step vs3 [] _ _ H1 (RHeartbeatAck vs3 [] s9 [] r2 [] 2 ltac:(dec))).
  eexists. eexists. split; [exact H2|]. split; [left; reflexivity|]. split; [reflexivity|discriminate].
Qed.

Print Assumptions read_index_nonvacuous.
