(* C14 No internal assertion fires: node-local part.  Every panic site of the modelled code is
   an explicit [Panic site] result of the model; the lemmas below show which guards make
   sites unreachable locally.  The cluster-level claim is checked by the monitors. *)
From Coq Require Import List NArith.
From RaftV Require Import Base Types Quorum Progress Tracker Storage Log Raft RawNode QuorumProofs RaftMono RaftRouting NodeProps PreVoteProofs LocalProofs FlowProofs LogProofs ConfProofs.
Import ListNotations.
Open Scope N_scope.

(* the nested Step call of appliedTo never reaches the model's recursion leaf *)
Theorem C14_nested_step_exact : forall st k1 k2 r m,
  m_type m = MsgProp -> m_term m = 0 -> step_gen st k1 r m = step_gen st k2 r m.
Proof. exact step_gen_prop_independent. Qed.
Print Assumptions C14_nested_step_exact.

(* Inflights.Add on a full window is the assertion; SentEntries is reached only when not full *)
Theorem C14_inflights_add : forall i idx b, infl_full i = true -> infl_add i idx b = Panic PInflightsAddFull.
Proof. exact infl_add_full. Qed.
Print Assumptions C14_inflights_add.

(* storage writes keep the log well formed, so the slice bounds of later reads hold *)
Theorem C14_append_keeps_wf : forall s ents s',
  ms_wf s -> (forall e0 rest, ents = e0 :: rest -> contig (e_index e0) ents) ->
  ms_append s ents = Ok s' ->
  ms_wf s' /\ a_base (abs_ms s') = a_base (abs_ms s) /\ a_base_term (abs_ms s') = a_base_term (abs_ms s) /\
  ms_snapshot s' = ms_snapshot s /\ ms_hardstate s' = ms_hardstate s /\
  (forall e0 rest, ents = e0 :: rest -> a_first (abs_ms s) <= e_index e0 ->
     abs_ms s' = a_truncate_append (abs_ms s) ents).
Proof. exact ms_append_refines. Qed.
Print Assumptions C14_append_keeps_wf.


(* ---- assertions that no input can reach (Proofs/PanicProofs.v) ----
   [unr p]: p is one of Inflights.Add on a full window, Progress.SentEntries in StateSnapshot, an
   unknown Progress state or transition, the invalid state transitions leader -> candidate,
   leader -> pre-candidate and follower -> leader, or the recursion leaf of the nested Step. *)
From RaftV Require PanicProofs.

(* Step, for every state and every message of any type, term and content *)
Theorem C14_step_unreachable_assertions : forall st r m p,
  step st r m = Panic p -> PanicProofs.unr p = false.
Proof. exact PanicProofs.step_np. Qed.
Print Assumptions C14_step_unreachable_assertions.

Theorem C14_tick_unreachable_assertions : forall st r p,
  tick st r = Panic p -> PanicProofs.unr p = false.
Proof. exact PanicProofs.tick_np. Qed.
Print Assumptions C14_tick_unreachable_assertions.

(* every input of the RawNode API and every storage write, in any state whatsoever *)
Theorem C14_node_unreachable_assertions : forall n i d p,
  node_step n i d = Panic p -> PanicProofs.unr p = false.
Proof. exact PanicProofs.node_step_np. Qed.
Print Assumptions C14_node_unreachable_assertions.

(* the flow-control half on its own: maybeSendAppend asks IsPaused and Full before it calls
   SentEntries, so neither assertion can fire *)
Theorem C14_flow_assertions_unreachable : forall st r to sie p,
  maybe_send_append st r to sie = Panic p -> PanicProofs.unr p = false.
Proof. exact PanicProofs.maybe_send_append_np. Qed.
Print Assumptions C14_flow_assertions_unreachable.
