(* C11 ReadIndex (ReadOnlySafe), node-local half. *)
From Coq Require Import List NArith.
From RaftV Require Safety SafetyEx ReadIndex ReadIndexEx.
From RaftV Require Import Base Types Quorum Progress Tracker Storage Log Raft RawNode QuorumProofs RaftMono RaftRouting NodeProps PreVoteProofs LocalProofs FlowProofs LogProofs ConfProofs.
Import ListNotations.
Open Scope N_scope.

Theorem C11_postponed_until_own_term_commit : forall st r m r' e,
  m_type m = MsgReadIndex -> committed_entry_in_current_term st r = false ->
  step_leader st r m = Ok (r', e) ->
  r' = set_r_pending_read_index r (r_pending_read_index r ++ [m]).
Proof. exact read_index_postponed. Qed.
Print Assumptions C11_postponed_until_own_term_commit.

(* the sole-voter shortcut is for the sole voter only (F12 repair): a leader that is not a voter of
   its configuration queues the request and starts a heartbeat round *)
Theorem C11_non_voter_leader_asks_quorum : forall r m r',
  existsb (N.eqb (r_id r)) (c_voters (t_config (r_trk r))) = false ->
  ro_option (r_read_only r) = ReadOnlySafe ->
  send_msg_read_index_response r m = Ok r' ->
  exists ro,
    ro_recv_ack (ro_add_request (r_read_only r) (l_committed (r_log r)) m) (r_id r)
                (ro_heartbeat_ctx (ro_add_request (r_read_only r) (l_committed (r_log r)) m)) = Ok ro /\
    bcast_heartbeat (set_r_read_only r ro) = Ok r'.
Proof. exact non_voter_leader_asks_quorum. Qed.
Print Assumptions C11_non_voter_leader_asks_quorum.

Theorem C11_confirmed_by_quorum : forall ro c0 c1 ro' out,
  ro_maybe_advance ro c0 c1 = Ok (ro', out) ->
  (out = [] /\ ro' = ro) \/
  (ro_confirmed ro < joint_committed c0 c1 (ro_acks ro) /\
   ro_confirmed ro' = joint_committed c0 c1 (ro_acks ro) /\
   nlen out = joint_committed c0 c1 (ro_acks ro) - ro_confirmed ro /\
   ro_unconfirmed ro = out ++ ro_unconfirmed ro').
Proof. exact ro_advance_quorum. Qed.
Print Assumptions C11_confirmed_by_quorum.

Theorem C11_reset_on_role_change : forall st r t r',
  reset st r t = Ok r' -> r_read_only r' = new_readonly (ro_option (r_read_only r)).
Proof. exact reset_clears_read_only. Qed.
Print Assumptions C11_reset_on_role_change.



(* ---------- protocol level (Spec/ReadIndex.v over Spec/Safety.v) ---------- *)

(* ReadOnlySafe for every execution of the protocol of Spec/Safety.v extended by read requests: the
   leader of term t, still in term t, having committed an entry of its own term, takes a request;
   nodes that are still in term t answer the heartbeat that carries it; once a majority of the
   voters has answered, every entry that any leadership had committed when the request was made
   lies at or below a position this leadership had itself committed by then, i.e. at or below the
   index the read is served with.  (A later leadership cannot have committed anything before the
   request: the majority that acknowledged it had already left term t and cannot answer.) *)
Theorem C11_read_index_covers_protocol : forall vs vo p r,
  ReadIndex.rreach vs vo p -> In r (snd p) -> Safety.majority vs vo (ReadIndex.has_acker r) ->
  forall i' e' t', In (i', e', t') (ReadIndex.rd_c0 r) ->
    exists i e, In (i, e, ReadIndex.rd_term r) (ReadIndex.rd_c0 r) /\ (i' <= i)%nat.
Proof. exact ReadIndex.read_index_covers. Qed.
Print Assumptions C11_read_index_covers_protocol.

(* the premises are satisfiable (Spec/ReadIndexEx.v): an execution with a served read *)
Theorem C11_protocol_nonvacuous :
  exists p r, ReadIndex.rreach SafetyEx.vs3 [] p /\ In r (snd p) /\
              Safety.majority SafetyEx.vs3 [] (ReadIndex.has_acker r) /\ ReadIndex.rd_c0 r <> [].
Proof. exact ReadIndexEx.read_index_nonvacuous. Qed.
Print Assumptions C11_protocol_nonvacuous.

(* a follower reports the read index the leader confirmed, unchanged (Proofs/RoleProofs.v; the seeded
   change C11_follower_clamp_readindex replaced it by the follower's own commit index) *)
From RaftV Require RoleProofs.
Theorem C11_follower_reports_leaders_read_index : forall st r m e r' err,
  m_type m = MsgReadIndexResp -> m_entries m = [e] ->
  step_follower st r m = Ok (r', err) ->
  r_read_states r' = r_read_states r ++ [mkRS (m_index m) (e_data e)].
Proof. exact RoleProofs.follower_reports_leaders_read_index. Qed.
Print Assumptions C11_follower_reports_leaders_read_index.

(* a confirmed read was acknowledged by a majority of the incoming voters AND by a majority of the
   outgoing voters of a joint configuration (QuorumProofs.majority_acked: more than half of the
   half's voters acknowledged a position at least that high) *)
Theorem C11_confirmed_by_both_majorities : forall ro c0 c1 ro' out,
  ro_maybe_advance ro c0 c1 = Ok (ro', out) -> out <> [] ->
  (c0 <> [] -> QuorumProofs.majority_acked c0 (ro_acks ro) (ro_confirmed ro')) /\
  (c1 <> [] -> QuorumProofs.majority_acked c1 (ro_acks ro) (ro_confirmed ro')).
Proof. exact LocalProofs.ro_advance_both_majorities. Qed.
Print Assumptions C11_confirmed_by_both_majorities.

(* incoming {1,4,5}, outgoing {1,2,3}: the acknowledgements of 1 and 4 (a majority of the incoming
   voters only) confirm nothing; with 2 added the request is confirmed *)
Example C11_joint_read_nonvacuous :
  let ro := fun acks => mkRO ReadOnlySafe acks [(msg0 MsgReadIndex, 7)] 0 in
  ro_maybe_advance (ro [(1, 1); (4, 1)]) [1; 4; 5] [1; 2; 3] = Ok (ro [(1, 1); (4, 1)], []) /\
  exists ro', ro_maybe_advance (ro [(1, 1); (4, 1); (2, 1)]) [1; 4; 5] [1; 2; 3] = Ok (ro', [(msg0 MsgReadIndex, 7)]).
Proof. split; [vm_compute; reflexivity | eexists; vm_compute; reflexivity]. Qed.
