(* C11 ReadIndex (ReadOnlySafe), node-local half. *)
From Coq Require Import List NArith.
From RaftV Require Import Base Types Quorum Progress Tracker Storage Log Raft RawNode QuorumProofs RaftMono RaftRouting NodeProps PreVoteProofs LocalProofs FlowProofs LogProofs ConfProofs.
Import ListNotations.
Open Scope N_scope.

Theorem C11_postponed_until_own_term_commit : forall st r m r' e,
  m_type m = MsgReadIndex -> committed_entry_in_current_term st r = false ->
  step_leader st r m = Ok (r', e) ->
  r' = set_r_pending_read_index r (r_pending_read_index r ++ [m]).
Proof. exact read_index_postponed. Qed.
Print Assumptions C11_postponed_until_own_term_commit.

Theorem C11_confirmed_by_quorum : forall ro c0 c1 ro' out,
  ro_maybe_advance ro c0 c1 = Ok (ro', out) ->
  (out = [] /\ ro' = ro) \/
  (ro_confirmed ro < joint_committed c0 c1 (ro_acks ro) /\
   ro_confirmed ro' = joint_committed c0 c1 (ro_acks ro) /\
   nlen out = joint_committed c0 c1 (ro_acks ro) - ro_confirmed ro /\
   ro_unconfirmed ro = out ++ ro_unconfirmed ro').
Proof. exact ro_advance_quorum. Qed.
Print Assumptions C11_confirmed_by_quorum.

Theorem C11_reset_on_role_change : forall st r t r',
  reset st r t = Ok r' -> r_read_only r' = new_readonly (ro_option (r_read_only r)).
Proof. exact reset_clears_read_only. Qed.
Print Assumptions C11_reset_on_role_change.

