(* C16 Flow-control and size limits are respected.  Statements only; proofs in
   Proofs/FlowProofs.v, over Model/Storage.v (limitSize), Model/Log.v (slice/entries),
   Model/Raft.v (maybeSendAppend, appendEntry), Model/Progress.v (Inflights). *)
From Coq Require Import List NArith.
From RaftV Require InflRefine.
From RaftV Require Import Base Types Progress Tracker Storage Log Raft FlowProofs.
Import ListNotations.
Open Scope N_scope.

(* limitSize: a non-empty prefix, within the budget unless it is a single entry *)
Theorem C16_limit_size : forall ents maxSize,
  ents <> [] ->
  exists k, limit_size ents maxSize = firstn (S k) ents /\ fits (limit_size ents maxSize) maxSize.
Proof. exact limit_size_spec. Qed.
Print Assumptions C16_limit_size.

(* raftLog.slice / entries over storage + unstable, for every log and storage state *)
Theorem C16_slice : forall st l lo hi maxSize es e,
  l_slice st l lo hi maxSize = Ok (es, e) -> fits_or_empty es maxSize.
Proof. exact l_slice_fits. Qed.
Print Assumptions C16_slice.

(* every MsgApp queued by maybeSendAppend carries entries of total size <= MaxSizePerMsg
   unless it carries a single entry; nothing at all is sent to a follower in StateSnapshot *)
Theorem C16_msgapp : forall st r to sie r' b,
  maybe_send_append st r to sie = Ok (r', b) ->
  forall pr, get_progress r to = Some pr ->
  (pr_state_ pr = StateSnapshot -> r' = r /\ b = false) /\
  (forall m, In m (r_msgs r') -> ~ In m (r_msgs r) -> m_type m = MsgApp ->
             fits_or_empty (m_entries m) (r_max_msg_size r)).
Proof. exact maybe_send_append_msgs. Qed.
Print Assumptions C16_msgapp.

(* the uncommitted-size budget: refused exactly when the log already holds uncommitted
   payload, the proposal is non-empty and the sum would exceed the limit; a refusal changes
   nothing; an acceptance stays within the limit unless it starts from zero (the "plus one
   proposal") or is empty *)
Theorem C16_uncommitted : forall r es r' ok,
  increase_uncommitted_size r es = (r', ok) ->
  let s := payloads_size es in
  (ok = false <-> 0 < r_uncommitted_size r /\ 0 < s /\ r_max_uncommitted_size r < r_uncommitted_size r + s) /\
  (ok = false -> r' = r) /\
  (ok = true -> r_uncommitted_size r' = r_uncommitted_size r + s /\
                (r_uncommitted_size r' <= r_max_uncommitted_size r \/ r_uncommitted_size r = 0 \/ s = 0)).
Proof. exact increase_uncommitted_spec. Qed.
Print Assumptions C16_uncommitted.

Theorem C16_dropped_appends_nothing : forall st r es r',
  append_entry st r es = Ok (r', false) -> r' = r.
Proof. exact append_entry_dropped. Qed.
Print Assumptions C16_dropped_appends_nothing.

(* Inflights: the window never exceeds its size; adding to a full window is refused *)
Theorem C16_inflights_add : forall i idx b i',
  infl_inv i -> infl_add i idx b = Ok i' ->
  infl_inv i' /\ in_count i' = in_count i + 1 /\ in_bytes i' = in_bytes i + b /\
  in_size i' = in_size i /\ in_maxbytes i' = in_maxbytes i.
Proof. exact infl_add_inv. Qed.
Print Assumptions C16_inflights_add.

Theorem C16_inflights_full : forall i idx b, infl_full i = true -> infl_add i idx b = Panic PInflightsAddFull.
Proof. exact infl_add_full. Qed.
Print Assumptions C16_inflights_full.

Theorem C16_inflights_free : forall i to,
  infl_inv i -> infl_inv (infl_free_le i to) /\ in_count (infl_free_le i to) <= in_count i.
Proof. exact infl_free_le_inv. Qed.
Print Assumptions C16_inflights_free.


(* ---------- tracker.Inflights is a plain window (Proofs/InflRefine.v) ---------- *)

(* Data refinement of the ring buffer (start, count, a buffer that grows by doubling up to size, with
   wrap-around) to a list of (index, bytes), oldest first: Add panics exactly when the window is full
   (by count, or by bytes when a byte limit is set) and otherwise appends; FreeLE drops exactly the
   leading entries whose index is <= to; reset empties it; Count and Full are the length and the
   fullness of the window.  [infl_ok] is the representation invariant; it holds of NewInflights. *)
Theorem C16_inflights_refines_window : forall i o,
  InflRefine.infl_ok i ->
  match InflRefine.cstep i o, InflRefine.astep (in_size i) (in_maxbytes i) (infl_window i) o with
  | Ok i', Some w' =>
      InflRefine.infl_ok i' /\ infl_window i' = w' /\ in_size i' = in_size i /\ in_maxbytes i' = in_maxbytes i /\
      infl_count i' = nlen w' /\ infl_full i' = InflRefine.afull (in_size i) (in_maxbytes i) w'
  | Panic _, None => True
  | _, _ => False
  end.
Proof. exact InflRefine.infl_refines. Qed.
Print Assumptions C16_inflights_refines_window.

Theorem C16_new_inflights_ok : forall size mb,
  InflRefine.infl_ok (new_inflights size mb) /\ infl_window (new_inflights size mb) = [].
Proof. exact InflRefine.infl_new_ok. Qed.
Print Assumptions C16_new_inflights_ok.

(* what every window reached by these operations guarantees: at most [size] messages in flight and,
   with a byte limit, everything but the newest message stays below the limit *)
Theorem C16_window_budget : forall size mb w o w',
  InflRefine.window_inv size mb w -> InflRefine.astep size mb w o = Some w' -> InflRefine.window_inv size mb w'.
Proof. exact InflRefine.window_inv_step. Qed.
Print Assumptions C16_window_budget.

(* ---- the window as an invariant of the node (Proofs/FlowInvProofs.v) ---- *)
From RaftV Require Import RawNode NodeProps.
From RaftV Require FlowInvProofs StreamEx.

(* [pinv M B r]: the tracker's limits are M (MaxInflightMsgs) and B (MaxInflightBytes), and every
   Progress has a window that represents at most M messages and, under a byte limit, keeps all but
   its newest message below B.  Every message of any type, term and content keeps it ... *)
Theorem C16_window_invariant_step : forall M B st r m r' e,
  step st r m = Ok (r', e) -> FlowInvProofs.pinv M B r -> FlowInvProofs.pinv M B r'.
Proof. exact FlowInvProofs.step_pk. Qed.
Print Assumptions C16_window_invariant_step.

(* ... every tick keeps it ... *)
Theorem C16_window_invariant_tick : forall M B st r r',
  tick st r = Ok r' -> FlowInvProofs.pinv M B r -> FlowInvProofs.pinv M B r'.
Proof. exact FlowInvProofs.tick_pk. Qed.
Print Assumptions C16_window_invariant_tick.

(* ... a configuration change or a snapshot restore installs fresh windows of the same limits ... *)
Theorem C16_window_invariant_conf_change : forall M B st r cc r' cs,
  apply_conf_change_raft st r cc = Ok (r', cs) -> FlowInvProofs.pinv M B r -> FlowInvProofs.pinv M B r'.
Proof. exact FlowInvProofs.apply_conf_change_raft_pk. Qed.
Print Assumptions C16_window_invariant_conf_change.

(* ... so does every input of the RawNode API, over every history of an incarnation ... *)
Theorem C16_window_invariant_history : forall M B ins n n' rn,
  n_rn n = Some rn -> FlowInvProofs.rpinv M B rn ->
  Forall (fun id => same_incarnation (fst id) = true) ins ->
  node_run n ins = Ok n' ->
  exists rn', n_rn n' = Some rn' /\ FlowInvProofs.rpinv M B rn'.
Proof. exact FlowInvProofs.node_run_pinv. Qed.
Print Assumptions C16_window_invariant_history.

(* ... and a new node starts with it, for the limits of its configuration *)
Theorem C16_window_invariant_start : forall st c d rn,
  new_rawnode st c d = Ok rn ->
  FlowInvProofs.rpinv (cfg_max_inflight_msgs c)
    (if N.eqb (cfg_max_inflight_bytes c) 0 then noLimit else cfg_max_inflight_bytes c) rn.
Proof. exact FlowInvProofs.new_rawnode_pinv. Qed.
Print Assumptions C16_window_invariant_start.

(* what it means: in every such state no follower has more than MaxInflightMsgs appends in flight,
   nor, under a byte limit, more than MaxInflightBytes beyond the one message that crosses it *)
Theorem C16_window_bounds : forall M B r id pr,
  FlowInvProofs.pinv M B r -> get_progress r id = Some pr ->
  infl_count (pr_inflights pr) <= M /\
  (B <> 0 -> InflRefine.sumb (removelast (infl_window (pr_inflights pr))) < B \/ infl_window (pr_inflights pr) = []).
Proof. exact FlowInvProofs.pinv_bounds. Qed.
Print Assumptions C16_window_bounds.
