(* C12 Quorum arithmetic: majority and joint decisions are exact.
   This file holds only the property statements; each is closed by [exact] of a lemma of
   Proofs/QuorumProofs.v and followed by Print Assumptions.  [vs], [c0], [c1] are the key
   lists of the Go maps (duplicate free by construction; no proof below needs that). *)
From Coq Require Import List NArith Lia Sorting.Permutation.
From RaftV Require Import Base Quorum QuorumProofs.
Import ListNotations.

(* The committed index of a non-empty voter set is the greatest index acknowledged by a
   strict majority, missing voters counting as 0. *)
Theorem C12_majority_committed : forall vs ack,
  vs <> [] ->
  majority_acked vs ack (majority_committed vs ack) /\
  forall i, majority_acked vs ack i -> (i <= majority_committed vs ack)%N.
Proof. exact majority_committed_greatest. Qed.
Print Assumptions C12_majority_committed.

Theorem C12_majority_committed_empty : forall ack, majority_committed [] ack = maxU64.
Proof. exact majority_committed_empty. Qed.
Print Assumptions C12_majority_committed_empty.

(* joint = minimum of both halves; an empty half imposes no constraint *)
Theorem C12_joint_committed : forall c0 c1 ack,
  joint_committed c0 c1 ack = N.min (majority_committed c0 ack) (majority_committed c1 ack).
Proof. exact joint_committed_min. Qed.
Print Assumptions C12_joint_committed.

Theorem C12_joint_committed_empty_half : forall c0 ack,
  Forall (fun kv => (snd kv <= maxU64)%N) ack ->
  joint_committed c0 [] ack = majority_committed c0 ack /\
  joint_committed [] c0 ack = majority_committed c0 ack.
Proof. exact joint_committed_empty_half. Qed.
Print Assumptions C12_joint_committed_empty_half.

(* Won / Lost / Pending for one set: exact, exclusive and exhaustive *)
Theorem C12_majority_vote : forall vs votes,
  vs <> [] ->
  (majority_vote vs votes = VoteWon <-> yes_majority vs votes) /\
  (majority_vote vs votes = VoteLost <-> majority_impossible vs votes) /\
  (majority_vote vs votes = VotePending <->
     ~ yes_majority vs votes /\ ~ majority_impossible vs votes).
Proof. exact majority_vote_spec. Qed.
Print Assumptions C12_majority_vote.

Theorem C12_majority_vote_empty : forall votes, majority_vote [] votes = VoteWon.
Proof. exact majority_vote_empty. Qed.
Print Assumptions C12_majority_vote_empty.

(* joint: Won iff every (non-empty) half has a yes majority, Lost iff that has become
   impossible for some half, Pending otherwise *)
Theorem C12_joint_vote : forall c0 c1 votes,
  (joint_vote c0 c1 votes = VoteWon <-> half_won c0 votes /\ half_won c1 votes) /\
  (joint_vote c0 c1 votes = VoteLost <-> half_lost c0 votes \/ half_lost c1 votes) /\
  (joint_vote c0 c1 votes = VotePending <->
     ~ (half_won c0 votes /\ half_won c1 votes) /\ ~ (half_lost c0 votes \/ half_lost c1 votes)).
Proof. exact joint_vote_spec. Qed.
Print Assumptions C12_joint_vote.

(* map-iteration order is irrelevant (the quorum half of C19) *)
Theorem C12_order_independent : forall c0 c0' c1 c1' ack votes,
  Permutation c0 c0' -> Permutation c1 c1' ->
  joint_committed c0 c1 ack = joint_committed c0' c1' ack /\
  joint_vote c0 c1 votes = joint_vote c0' c1' votes.
Proof.
  intros c0 c0' c1 c1' ack votes H0 H1. split.
  - exact (joint_committed_perm c0 c0' c1 c1' ack H0 H1).
  - exact (joint_vote_perm c0 c0' c1 c1' votes H0 H1).
Qed.
Print Assumptions C12_order_independent.

(* non-vacuity: concrete instances meeting the hypotheses, with the expected results *)
Example C12_ex_commit :
  majority_committed [1;2;3]%N [(1,5);(2,3)]%N = 3%N /\
  majority_acked [1;2;3]%N [(1,5);(2,3)]%N 3%N /\ ~ majority_acked [1;2;3]%N [(1,5);(2,3)]%N 4%N.
Proof. unfold majority_acked. vm_compute. repeat split; lia. Qed.
Example C12_ex_vote :
  joint_vote [1;2;3]%N [4]%N [(1,true);(2,true)] = VotePending /\
  joint_vote [1;2;3]%N [4]%N [(1,true);(2,true);(4,false)] = VoteLost /\
  joint_vote [1;2;3]%N [4]%N [(1,true);(2,true);(4,true)] = VoteWon.
Proof. vm_compute. auto. Qed.
