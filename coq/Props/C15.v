(* C15 Progress after faults stop: the enabling mechanisms, as node-local lemmas.  The
   end-to-end convergence claim is explored by the harness, not proved. *)
From Coq Require Import List NArith.
From RaftV Require TickProofs.
From RaftV Require Import Base Types Quorum Progress Tracker Storage Log Raft RawNode QuorumProofs RaftMono RaftRouting NodeProps PreVoteProofs LocalProofs FlowProofs LogProofs ConfProofs.
Import ListNotations.
Open Scope N_scope.

Theorem C15_heartbeat_resp_unpauses : forall st r m r' e pr,
  m_type m = MsgHeartbeatResp -> get_progress r (m_from m) = Some pr ->
  pr_match pr = l_last_index st (r_log r) -> pr_state_ pr <> StateProbe -> m_context m = [] ->
  step_leader st r m = Ok (r', e) ->
  get_progress r' (m_from m) = Some (pr_with_paused (pr_with_recent_active pr true) false).
Proof. exact heartbeat_resp_unpauses. Qed.
Print Assumptions C15_heartbeat_resp_unpauses.

(* (outside an auto-leave joint configuration; inside one the same tick first aborts the transfer
   and then retries the proposal that leaves the joint configuration: the F7 repair) *)
Theorem C15_transfer_aborted : forall st r r',
  r_state r = StateLeader -> r_check_quorum r = false ->
  c_auto_leave (t_config (r_trk r)) = false ->
  r_election_timeout r <= r_election_elapsed r + 1 ->
  r_heartbeat_elapsed r + 1 < r_heartbeat_timeout r ->
  tick_heartbeat st r = Ok r' -> r_lead_transferee r' = NoneId.
Proof. exact transfer_aborted_on_timeout. Qed.
Print Assumptions C15_transfer_aborted.


(* the F7 repair: in an auto-leave joint configuration whose changes are all applied, the tick that
   gives up a pending leadership transfer goes on to step the proposal that leaves the joint
   configuration, on a state in which the transfer is already aborted (so the proposal is not
   dropped for that reason any more) *)
Theorem C15_transfer_abort_retries_auto_leave : forall st r r',
  r_state r = StateLeader -> r_check_quorum r = false ->
  c_auto_leave (t_config (r_trk r)) = true -> r_pending_conf_index r <= l_applied (r_log r) ->
  r_lead_transferee r <> NoneId ->
  r_election_timeout r <= r_election_elapsed r + 1 ->
  tick_heartbeat st r = Ok r' ->
  let r0 := set_r_lead_transferee
              (set_r_election_elapsed (set_r_election_elapsed (set_r_heartbeat_elapsed r (r_heartbeat_elapsed r + 1))
                                                              (r_election_elapsed r + 1)) 0) NoneId in
  exists l x,
    l_applied_to (r_log r0) (l_applied (r_log r0)) 0 = Ok l /\
    step_inner st (set_r_log r0 l) leave_joint_prop = Ok x /\
    r_lead_transferee (set_r_log r0 l) = NoneId.
Proof. exact TickProofs.transfer_abort_retries_auto_leave. Qed.
Print Assumptions C15_transfer_abort_retries_auto_leave.

(* the election timer of a node that is not leader (Proofs/TickProofs.v): a tick before the
   randomized timeout only advances the timer; the tick that reaches it makes a node that may
   campaign (a voter, no snapshot pending, no committed configuration change waiting to be applied)
   a pre-candidate or a candidate.  With the bound on the randomized timeout (below twice the
   election timeout) this is the "within a bounded number of election timeouts somebody campaigns"
   step of the convergence argument; the rest of it is explored, not proved. *)
Theorem C15_election_timer_counts : forall st r r',
  r_state r <> StateLeader -> r_election_elapsed r + 1 < r_randomized_election_timeout r ->
  tick st r = Ok r' -> r' = set_r_election_elapsed r (r_election_elapsed r + 1).
Proof. exact TickProofs.tick_election_counts. Qed.
Print Assumptions C15_election_timer_counts.

Theorem C15_election_timeout_fires : forall st r r',
  r_state r <> StateLeader ->
  r_randomized_election_timeout r <= r_election_elapsed r + 1 ->
  promotable r = true -> has_unapplied_conf_changes st r = Ok false ->
  tick st r = Ok r' ->
  r_state r' = if r_pre_vote r then StatePreCandidate else StateCandidate.
Proof. exact TickProofs.election_timeout_fires. Qed.
Print Assumptions C15_election_timeout_fires.


(* a node that cannot campaign never restarts its election timer by itself (the seeded change
   C15_election_elapsed_reset negates this and lets such a node renew a dead leader's lease for ever) *)
Theorem C15_nonpromotable_timer_counts : forall st r r',
  r_state r <> StateLeader -> promotable r = false ->
  tick st r = Ok r' -> r' = set_r_election_elapsed r (r_election_elapsed r + 1).
Proof. exact TickProofs.nonpromotable_timer_counts. Qed.
Print Assumptions C15_nonpromotable_timer_counts.
