(* C09 Snapshot install never rolls back or forks a node, node-local half. *)
From Coq Require Import List NArith.
From RaftV Require AppendRefine RestoreRefine.
From RaftV Require Import Base Types Quorum Progress Tracker Storage Log Raft RawNode QuorumProofs RaftMono RaftRouting NodeProps PreVoteProofs LocalProofs FlowProofs LogProofs ConfProofs.
Import ListNotations.
Open Scope N_scope.

Theorem C09_restore_guards : forall st r s r' ok,
  restore st r s = Ok (r', ok) ->
  (s_index s <= l_committed (r_log r) -> r' = r /\ ok = false) /\
  (ok = true ->
     l_committed (r_log r) < s_index s /\ r_state r = StateFollower /\
     l_match_term st (r_log r) (s_index s) (s_term s) = false /\
     (In (r_id r) (cs_voters (s_conf s)) \/ In (r_id r) (cs_learners (s_conf s)) \/
      In (r_id r) (cs_voters_outgoing (s_conf s)))) /\
  (ok = false -> l_unstable (r_log r') = l_unstable (r_log r) \/ r_state r <> StateFollower).
Proof. exact restore_guards. Qed.
Print Assumptions C09_restore_guards.

Theorem C09_restore_never_lowers_commit : forall st r s r' b, restore st r s = Ok (r', b) -> mono r r'.
Proof. exact restore_mono. Qed.
Print Assumptions C09_restore_never_lowers_commit.

Theorem C09_snapshot_message_never_lowers_commit : forall st r m r', handle_snapshot st r m = Ok r' -> mono r r'.
Proof. exact handle_snapshot_mono. Qed.
Print Assumptions C09_snapshot_message_never_lowers_commit.

Theorem C09_response_withheld : forall st r m r', handle_snapshot st r m = Ok r' -> ext r r'.
Proof. exact handle_snapshot_ext. Qed.
Print Assumptions C09_response_withheld.



(* an accepted snapshot leaves the node with exactly the snapshot's index, term and membership as its
   new log base (Proofs/RestoreRefine.v): the logical log is the snapshot point followed by nothing,
   the commit index is the snapshot index, the configuration is the snapshot's *)
Theorem C09_restore_installs_exactly_the_snapshot : forall st r s r',
  restore st r s = Ok (r', true) ->
  r_log r' = l_restore (r_log r) s /\
  AppendRefine.lview st (r_log r') = mkAbs (s_index s) (s_term s) [] /\
  l_committed (r_log r') = s_index s /\
  confstate_equiv (s_conf s) (conf_state (t_config (r_trk r'))) = true /\
  r_state r' = StateFollower.
Proof. exact RestoreRefine.restore_installs_snapshot. Qed.
Print Assumptions C09_restore_installs_exactly_the_snapshot.

(* the snapshot a leader sends is exactly the one its log can offer: the pending unstable snapshot,
   otherwise the storage's latest snapshot, which the application created from applied (hence
   committed) state (Proofs/ProposalProofs.v); that it is a prefix of the committed log is then the
   application's contract, which the harness' application model keeps and the monitors check *)
From RaftV Require ProposalProofs.
Theorem C09_snapshot_sent_is_the_logs : forall st r to pr r',
  maybe_send_snapshot st r to pr = Ok (r', true) ->
  exists m, r_msgs r' = r_msgs r ++ [m] /\ m_type m = MsgSnap /\ m_to m = to /\
            m_snapshot m = Some (l_snapshot st (r_log r)) /\
            l_snapshot st (r_log r) = match u_snapshot (l_unstable (r_log r)) with
                                      | Some s => s
                                      | None => ms_get_snapshot st
                                      end.
Proof. exact ProposalProofs.snapshot_sent_is_the_logs. Qed.
Print Assumptions C09_snapshot_sent_is_the_logs.

(* the answer to a MsgSnap vouches for the whole log only if the snapshot was installed; a snapshot
   that was ignored or that only fast-forwarded the commit index is answered with the commit index,
   because the tail beyond it was not compared with the sender's log *)
Theorem C09_snapshot_answer : forall st r m r',
  handle_snapshot st r m = Ok r' ->
  exists r1 ok a,
    restore st r (match m_snapshot m with Some s => s | None => empty_snapshot end) = Ok (r1, ok) /\
    r_msgs_after_append r' = r_msgs_after_append r1 ++ [a] /\ r_msgs r' = r_msgs r1 /\
    m_type a = MsgAppResp /\ m_to a = m_from m /\ m_from a = r_id r1 /\ m_term a = r_term r1 /\
    m_reject a = false /\
    m_index a = (if ok then last_index st r1 else l_committed (r_log r1)).
Proof. exact LocalProofs.snapshot_answer. Qed.
Print Assumptions C09_snapshot_answer.
