(* C05 Promises are durable before they are visible, node-local half: promise messages
   (MsgAppResp, MsgVoteResp, MsgPreVoteResp) are routed through msgsAfterAppend by every
   function of the node, for every input; they never enter the immediately-sendable queue. *)
From Coq Require Import List NArith.
From RaftV Require AppendRefine.
From RaftV Require Import Base Types Quorum Progress Tracker Storage Log Raft RawNode QuorumProofs RaftMono RaftRouting NodeProps PreVoteProofs LocalProofs FlowProofs LogProofs ConfProofs.
Import ListNotations.
Open Scope N_scope.

Theorem C05_routing_step : forall st r m r' e, step st r m = Ok (r', e) -> ext r r'.
Proof. exact step_ext. Qed.
Print Assumptions C05_routing_step.

Theorem C05_routing_tick : forall st r r', tick st r = Ok r' -> ext r r'.
Proof. exact tick_ext. Qed.
Print Assumptions C05_routing_tick.

Theorem C05_routing_apply_conf_change : forall st r cc r' cs, apply_conf_change_raft st r cc = Ok (r', cs) -> ext r r'.
Proof. exact apply_conf_change_raft_ext. Qed.
Print Assumptions C05_routing_apply_conf_change.

(* the Ready: in synchronous mode the messages queued for local stepping after persistence
   are not leader messages, and the hard state exposed is the current one *)
Theorem C05_accept_ready : forall st rn rd rn',
  inv_rn rn -> accept_ready st rn rd = Ok rn' ->
  inv_rn rn' /\ same_hs (rn_raft rn) (rn_raft rn').
Proof. exact accept_ready_props. Qed.
Print Assumptions C05_accept_ready.

Theorem C05_restart_from_storage : forall st c d rn,
  new_rawnode st c d = Ok rn ->
  inv_rn rn /\
  match ms_hardstate st with
  | Some h => if is_empty_hs h
              then hard_state (rn_raft rn) = mkHS 0 0 (ms_first_index st - 1)
              else hard_state (rn_raft rn) = h
  | None => hard_state (rn_raft rn) = mkHS 0 0 (ms_first_index st - 1)
  end.
Proof. exact new_rawnode_hs. Qed.
Print Assumptions C05_restart_from_storage.



(* what the index of a positive MsgAppResp promises (Proofs/AppendRefine.v): after an accepted
   maybe-append the follower's logical log holds every entry of the message at its index with its
   term, still matches (prev index, prev term), and reaches at least to prev index + number of
   entries, the index it acknowledges *)
Theorem C05_accepted_append_is_held : forall a prev pt ents a',
  a_wf a -> contig (prev + 1) ents -> a_base a <= prev ->
  AppendRefine.a_maybe_append a prev pt ents = Some a' ->
  (forall k e, nth_error ents k = Some e -> AppendRefine.a_match a' (e_index e) (e_term e) = true) /\
  prev + nlen ents <= a_last a' /\ AppendRefine.a_match a' prev pt = true.
Proof. exact AppendRefine.a_maybe_append_holds. Qed.
Print Assumptions C05_accepted_append_is_held.
