(* C02 Election safety, node-local half: one durable vote per term, votes only for up-to-date
   logs, leadership only on a joint-quorum tally.  Proofs in Proofs/LocalProofs.v, RaftMono.v. *)
From Coq Require Import List NArith.
From RaftV Require Import Base Types Quorum Progress Tracker Storage Log Raft RawNode QuorumProofs Election RaftMono RaftRouting NodeProps PreVoteProofs LocalProofs FlowProofs LogProofs ConfProofs.
Import ListNotations.
Open Scope N_scope.

(* one vote per term, over every message and across the whole incarnation: this is the vote
   clause of [hs_le] (C07) *)
Theorem C02_one_vote_per_term : forall st r m r' e,
  wf_msg m -> step st r m = Ok (r', e) -> hs_le (hard_state r) (hard_state r').
Proof. exact step_mono. Qed.
Print Assumptions C02_one_vote_per_term.

Theorem C02_vote_grant_conditions : forall st r m r' e,
  (m_type m = MsgVote \/ m_type m = MsgPreVote) ->
  step_dispatch st (step_inner st) r m = Ok (r', e) ->
  forall x, In x (r_msgs_after_append r') -> ~ In x (r_msgs_after_append r) -> m_reject x = false ->
  l_is_up_to_date st (r_log r) (m_logterm m) (m_index m) = Ok true /\
  (r_vote r = m_from m \/ (r_vote r = NoneId /\ r_lead r = NoneId) \/
   (m_type m = MsgPreVote /\ r_term r < m_term m)) /\
  (m_type m = MsgVote -> r_vote r' = m_from m) /\
  m_to x = m_from m /\ m_term x = m_term m.
Proof. exact vote_grant_conditions. Qed.
Print Assumptions C02_vote_grant_conditions.

Theorem C02_leader_needs_quorum : forall st r m r' e,
  r_state r = StateCandidate -> step_candidate st r m = Ok (r', e) -> r_state r' = StateLeader ->
  m_type m = MsgVoteResp /\
  joint_vote (c_voters (t_config (r_trk r))) (c_outgoing (t_config (r_trk r)))
             (t_votes (record_vote (r_trk r) (m_from m) (negb (m_reject m)))) = VoteWon /\
  (* ... and only once its own vote is recorded, which happens after term and vote are durable *)
  alookup (t_votes (record_vote (r_trk r) (m_from m) (negb (m_reject m)))) (r_id r) = Some true.
Proof. exact candidate_becomes_leader_only_on_quorum. Qed.
Print Assumptions C02_leader_needs_quorum.

(* a restarted node continues from its durable term and vote *)
Theorem C02_restart : forall st c d rn,
  new_rawnode st c d = Ok rn ->
  inv_rn rn /\
  match ms_hardstate st with
  | Some h => if is_empty_hs h
              then hard_state (rn_raft rn) = mkHS 0 0 (ms_first_index st - 1)
              else hard_state (rn_raft rn) = h
  | None => hard_state (rn_raft rn) = mkHS 0 0 (ms_first_index st - 1)
  end.
Proof. exact new_rawnode_hs. Qed.
Print Assumptions C02_restart.


(* ---------- protocol level (Spec/Election.v) ---------- *)

(* Election Safety: in any history of grants in which every voter votes at most once per term
   (C02_one_vote_per_term, across incarnations by C02_restart), two nodes that each hold
   grants of term t from a majority of a common voter set are the same node. *)
Theorem C02_election_safety : forall gs vs t c1 c2,
  votes_unique gs -> has_majority gs vs t c1 -> has_majority gs vs t c2 -> c1 = c2.
Proof. exact election_safety. Qed.
Print Assumptions C02_election_safety.

(* joint configurations: winners whose configurations share a non-empty voter set coincide *)
Theorem C02_election_safety_joint : forall gs a0 a1 b0 b1 t c1 c2 shared,
  votes_unique gs -> shared <> [] ->
  (shared = a0 \/ shared = a1) -> (shared = b0 \/ shared = b1) ->
  wins gs a0 a1 t c1 -> wins gs b0 b1 t c2 -> c1 = c2.
Proof. exact election_safety_joint. Qed.
Print Assumptions C02_election_safety_joint.

(* the tally of the code (VoteWon of joint_vote, C12) over recorded votes that stem from
   grants is a win in that sense: this links C02_leader_needs_quorum to the protocol level *)
Theorem C02_vote_won_wins : forall gs c0 c1 votes t c,
  (forall v, alookup votes v = Some true -> granted gs v t c = true) ->
  joint_vote c0 c1 votes = VoteWon -> wins gs c0 c1 t c.
Proof. exact vote_won_wins. Qed.
Print Assumptions C02_vote_won_wins.

(* the vote is not forgotten by an application that syncs only when it is told to: a Ready that
   exposes a new term or a new vote, or carries entries, asks for a durable write
   (Proofs/RoleProofs.v; the seeded change C02_mustsync_ignores_vote negates this) *)
From RaftV Require RoleProofs.
Theorem C02_new_vote_must_sync : forall st rn rd,
  ready_without_accept st rn = Ok rd ->
  (hs_term (hard_state (rn_raft rn)) <> hs_term (rn_prev_hard rn) \/
   hs_vote (hard_state (rn_raft rn)) <> hs_vote (rn_prev_hard rn) \/
   u_next_entries (l_unstable (r_log (rn_raft rn))) <> []) ->
  rd_must_sync rd = true.
Proof. exact RoleProofs.ready_must_sync. Qed.
Print Assumptions C02_new_vote_must_sync.
