(* C02 Election safety, node-local half: one durable vote per term, votes only for up-to-date
   logs, leadership only on a joint-quorum tally.  Proofs in Proofs/LocalProofs.v, RaftMono.v. *)
From Coq Require Import List NArith.
From RaftV Require Import Base Types Quorum Progress Tracker Storage Log Raft RawNode QuorumProofs RaftMono RaftRouting NodeProps PreVoteProofs LocalProofs FlowProofs LogProofs ConfProofs.
Import ListNotations.
Open Scope N_scope.

(* one vote per term, over every message and across the whole incarnation: this is the vote
   clause of [hs_le] (C07) *)
Theorem C02_one_vote_per_term : forall st r m r' e,
  wf_msg m -> step st r m = Ok (r', e) -> hs_le (hard_state r) (hard_state r').
Proof. exact step_mono. Qed.
Print Assumptions C02_one_vote_per_term.

Theorem C02_vote_grant_conditions : forall st r m r' e,
  (m_type m = MsgVote \/ m_type m = MsgPreVote) ->
  step_dispatch st (step_inner st) r m = Ok (r', e) ->
  forall x, In x (r_msgs_after_append r') -> ~ In x (r_msgs_after_append r) -> m_reject x = false ->
  l_is_up_to_date st (r_log r) (m_logterm m) (m_index m) = Ok true /\
  (r_vote r = m_from m \/ (r_vote r = NoneId /\ r_lead r = NoneId) \/
   (m_type m = MsgPreVote /\ r_term r < m_term m)) /\
  (m_type m = MsgVote -> r_vote r' = m_from m) /\
  m_to x = m_from m /\ m_term x = m_term m.
Proof. exact vote_grant_conditions. Qed.
Print Assumptions C02_vote_grant_conditions.

Theorem C02_leader_needs_quorum : forall st r m r' e,
  r_state r = StateCandidate -> step_candidate st r m = Ok (r', e) -> r_state r' = StateLeader ->
  m_type m = MsgVoteResp /\
  joint_vote (c_voters (t_config (r_trk r))) (c_outgoing (t_config (r_trk r)))
             (t_votes (record_vote (r_trk r) (m_from m) (negb (m_reject m)))) = VoteWon /\
  (* ... and only once its own vote is recorded, which happens after term and vote are durable *)
  alookup (t_votes (record_vote (r_trk r) (m_from m) (negb (m_reject m)))) (r_id r) = Some true.
Proof. exact candidate_becomes_leader_only_on_quorum. Qed.
Print Assumptions C02_leader_needs_quorum.

(* a restarted node continues from its durable term and vote *)
Theorem C02_restart : forall st c d rn,
  new_rawnode st c d = Ok rn ->
  inv_rn rn /\
  match ms_hardstate st with
  | Some h => if is_empty_hs h
              then hard_state (rn_raft rn) = mkHS 0 0 (ms_first_index st - 1)
              else hard_state (rn_raft rn) = h
  | None => hard_state (rn_raft rn) = mkHS 0 0 (ms_first_index st - 1)
  end.
Proof. exact new_rawnode_hs. Qed.
Print Assumptions C02_restart.

