(* C06 Commit index is quorum-backed, current-term and never ahead of the log, node-local half. *)
From Coq Require Import List NArith.
From RaftV Require Import Base Types Quorum Progress Tracker Storage Log Raft RawNode QuorumProofs RaftMono RaftRouting NodeProps PreVoteProofs LocalProofs FlowProofs LogProofs ConfProofs.
Import ListNotations.
Open Scope N_scope.

Theorem C06_maybe_commit : forall st r r' b,
  maybe_commit st r = Ok (r', b) ->
  (b = false -> r' = r) /\
  (b = true ->
     l_committed (r_log r') = t_committed (r_trk r) /\
     l_committed (r_log r) < t_committed (r_trk r) /\
     l_match_term st (r_log r) (t_committed (r_trk r)) (r_term r) = true /\
     t_committed (r_trk r) <= l_last_index st (r_log r)).
Proof. exact maybe_commit_spec. Qed.
Print Assumptions C06_maybe_commit.

(* t_committed is joint_committed over the Match values: exact by C12 *)
Theorem C06_quorum_index : forall vs ack, vs <> [] ->
  majority_acked vs ack (majority_committed vs ack) /\
  forall i, majority_acked vs ack i -> (i <= majority_committed vs ack)%N.
Proof. exact majority_committed_greatest. Qed.
Print Assumptions C06_quorum_index.

Theorem C06_heartbeat_clamped : forall r to ctx r' pr,
  get_progress r to = Some pr -> send_heartbeat r to ctx = Ok r' ->
  exists m, r_msgs r' = r_msgs r ++ [m] /\ m_type m = MsgHeartbeat /\
            m_commit m = N.min (pr_match pr) (l_committed (r_log r)).
Proof. exact heartbeat_commit_clamped. Qed.
Print Assumptions C06_heartbeat_clamped.

Theorem C06_commit_to_bounded : forall st l c l',
  l_commit_to st l c = Ok l' -> l_committed l <= l_last_index st l -> l_committed l' <= l_last_index st l.
Proof. exact commit_to_bounded. Qed.
Print Assumptions C06_commit_to_bounded.

Theorem C06_commit_never_decreases : forall st r m r' e,
  wf_msg m -> step st r m = Ok (r', e) -> hs_le (hard_state r) (hard_state r').
Proof. exact step_mono. Qed.
Print Assumptions C06_commit_never_decreases.


(* the follower side: an accepted MsgApp moves the commit index to min(leader's commit, end of the
   prefix the message proved equal to the leader's log) and no further (Proofs/ProposalProofs.v) *)
From RaftV Require ProposalProofs.
Theorem C06_follower_commit_clamped : forall st l pi pt ents c l' last,
  l_maybe_append st l pi pt ents c = Ok (l', Some last) ->
  last = pi + nlen ents /\
  l_committed l' = N.max (l_committed l) (N.min c (pi + nlen ents)).
Proof. exact ProposalProofs.follower_commit_clamped. Qed.
Print Assumptions C06_follower_commit_clamped.

(* what the quorum count rests on is re-learnt in every term: reset (every change of term or role)
   leaves Match = 0 and StateProbe for every peer, so an acknowledgement of an earlier term, whose
   entries may have been replaced since, never counts towards a commit of the new term *)
Theorem C06_new_term_forgets_matches : forall st r t r' id pr,
  reset st r t = Ok r' -> In (id, pr) (t_progress (r_trk r')) -> id <> r_id r ->
  pr_match pr = 0 /\ pr_state_ pr = StateProbe /\ pr_pending_snapshot pr = 0 /\ pr_recent_active pr = false.
Proof. exact LocalProofs.reset_forgets_matches. Qed.
Print Assumptions C06_new_term_forgets_matches.
