(* C18 Log storage views behave like one abstract log.  Statements only; proofs in
   Proofs/LogProofs.v.  [abslog] is a compacted prefix (base index, base term) followed by
   entries with consecutive indexes; [abs_ms] reads a MemoryStorage as one. *)
From Coq Require Import List NArith.
From RaftV Require AppendRefine AckRefine SliceRefine.
From RaftV Require Import Base Types Quorum Progress Tracker Storage Log Raft RawNode QuorumProofs RaftMono RaftRouting NodeProps PreVoteProofs LocalProofs FlowProofs LogProofs ConfProofs.
Import ListNotations.
Open Scope N_scope.

Theorem C18_term : forall s i,
  match ms_term s i with
  | (t, ENone) => a_base (abs_ms s) <= i <= a_last (abs_ms s) /\ a_term (abs_ms s) i = Some t
  | (_, ErrCompacted) => i < a_base (abs_ms s)
  | (_, ErrUnavailable) => a_last (abs_ms s) < i
  | _ => False
  end.
Proof. exact ms_term_refines. Qed.
Print Assumptions C18_term.

Theorem C18_entries : forall s lo hi maxSize es e,
  ms_entries s lo hi maxSize = Ok (es, e) ->
  (e = ErrCompacted <-> lo <= a_base (abs_ms s)) /\
  (e = ENone -> es = limit_size (a_range (abs_ms s) lo hi) maxSize) /\
  (e = ErrUnavailable -> a_ents (abs_ms s) = []).
Proof. exact ms_entries_refines. Qed.
Print Assumptions C18_entries.

Theorem C18_limit : forall ents maxSize, ents <> [] ->
  exists k, limit_size ents maxSize = firstn (S k) ents /\ fits (limit_size ents maxSize) maxSize.
Proof. exact limit_size_spec. Qed.
Print Assumptions C18_limit.

Theorem C18_append : forall s ents s',
  ms_wf s -> (forall e0 rest, ents = e0 :: rest -> contig (e_index e0) ents) ->
  ms_append s ents = Ok s' ->
  ms_wf s' /\ a_base (abs_ms s') = a_base (abs_ms s) /\ a_base_term (abs_ms s') = a_base_term (abs_ms s) /\
  ms_snapshot s' = ms_snapshot s /\ ms_hardstate s' = ms_hardstate s /\
  (forall e0 rest, ents = e0 :: rest -> a_first (abs_ms s) <= e_index e0 ->
     abs_ms s' = a_truncate_append (abs_ms s) ents).
Proof. exact ms_append_refines. Qed.
Print Assumptions C18_append.

Theorem C18_compact : forall s ci s' e,
  ms_wf s -> ms_compact s ci = Ok (s', e) ->
  (e = ErrCompacted <-> ci <= a_base (abs_ms s)) /\
  (e = ErrCompacted -> s' = s) /\
  (e = ENone -> ms_wf s' /\ a_base (abs_ms s') = ci /\
                a_term (abs_ms s) ci = Some (a_base_term (abs_ms s')) /\
                a_ents (abs_ms s') = skipn (N.to_nat (ci - a_base (abs_ms s))) (a_ents (abs_ms s)) /\
                ms_snapshot s' = ms_snapshot s /\ ms_hardstate s' = ms_hardstate s).
Proof. exact ms_compact_refines. Qed.
Print Assumptions C18_compact.

Theorem C18_apply_snapshot : forall s snap s' e,
  ms_apply_snapshot s snap = (s', e) ->
  (e = ErrSnapOutOfDate -> s' = s /\ s_index (ms_snapshot s) <> 0 /\ s_index snap <= s_index (ms_snapshot s)) /\
  (e = ENone -> abs_ms s' = mkAbs (s_index snap) (s_term snap) [] /\ ms_snapshot s' = snap /\ ms_wf s') /\
  (e = ENone \/ e = ErrSnapOutOfDate).
Proof. exact ms_apply_snapshot_refines. Qed.
Print Assumptions C18_apply_snapshot.

Theorem C18_create_snapshot : forall s i cs data s' snap e,
  ms_create_snapshot s i cs data = Ok (s', snap, e) ->
  abs_ms s' = abs_ms s /\
  (e = ErrSnapOutOfDate <-> i <= s_index (ms_snapshot s)) /\
  (e = ErrSnapOutOfDate -> s' = s /\ snap = None) /\
  (e = ENone -> a_base (abs_ms s) <= i <= a_last (abs_ms s) /\
                snap = Some (ms_snapshot s') /\ s_index (ms_snapshot s') = i /\
                a_term (abs_ms s) i = Some (s_term (ms_snapshot s'))).
Proof. exact ms_create_snapshot_refines. Qed.
Print Assumptions C18_create_snapshot.

(* the unstable tail: overwrite-from-index keeps one consecutive log *)
Theorem C18_truncate_and_append : forall u ents u' e0 rest,
  u_wf u -> ents = e0 :: rest -> contig (e_index e0) ents ->
  (match u_snapshot u with Some s => s_index s < e_index e0 | None => True end) ->
  e_index e0 <= u_offset u + nlen (u_entries u) ->
  u_truncate_and_append u ents = Ok u' ->
  u_wf u' /\ u_snapshot u' = u_snapshot u /\ u_snapshot_in_progress u' = u_snapshot_in_progress u /\
  u_offset u' = N.min (u_offset u) (e_index e0) /\
  u_entries u' = firstn (N.to_nat (e_index e0 - u_offset u)) (u_entries u) ++ ents /\
  u_offset_in_progress u' = N.min (u_offset_in_progress u) (e_index e0).
Proof. exact u_truncate_and_append_wf. Qed.
Print Assumptions C18_truncate_and_append.

(* persistence acknowledgements, possibly stale (ABA): only a prefix whose (index, term)
   matches the current content is dropped; anything else is ignored *)
Theorem C18_stable_to : forall u index term,
  u_wf u ->
  let u' := u_stable_to u index term in
  u_wf u' /\ u_snapshot u' = u_snapshot u /\
  (u' = u \/
   (u_offset u <= index /\
    (exists e, nth_error (u_entries u) (N.to_nat (index - u_offset u)) = Some e /\ e_term e = term) /\
    u_offset u' = index + 1 /\
    u_entries u' = skipn (N.to_nat (index + 1 - u_offset u)) (u_entries u) /\
    u_offset_in_progress u' = N.max (u_offset_in_progress u) (index + 1))).
Proof. exact u_stable_to_spec. Qed.
Print Assumptions C18_stable_to.

Theorem C18_slice : forall st l lo hi maxSize es,
  ms_wf st -> u_wf (l_unstable l) ->
  l_slice st l lo hi maxSize = Ok (es, ENone) ->
  contig lo es /\ nlen es <= hi - lo.
Proof. exact l_slice_contig. Qed.
Print Assumptions C18_slice.



(* a persistence acknowledgement never changes the logical log (Proofs/AckRefine.v): when the entries
   it names are in stable storage, as the Ready contract guarantees for an acknowledgement that is
   accepted ((index, term) still matches the unstable log), raftLog.stableTo moves the boundary
   between storage and the unstable tail and nothing else *)
Theorem C18_ack_keeps_logical_log : forall st l index term,
  AppendRefine.l_wf st l -> u_snapshot (l_unstable l) = None ->
  (forall k e, nth_error (u_entries (l_unstable l)) k = Some e -> u_offset (l_unstable l) + N.of_nat k <= index ->
     nth_error (ms_ents st) (N.to_nat (u_offset (l_unstable l) + N.of_nat k - ms_dummy_index st - 1)) = Some e) ->
  (u_offset (l_unstable l) + nlen (u_entries (l_unstable l)) = index + 1 -> ms_last_index st = index) ->
  AppendRefine.l_wf st (l_stable_to l index term) /\
  AppendRefine.lview st (l_stable_to l index term) = AppendRefine.lview st l.
Proof. exact AckRefine.stable_to_keeps_view. Qed.
Print Assumptions C18_ack_keeps_logical_log.

(* range queries answer from the logical log (Proofs/SliceRefine.v): the k-th entry that
   raftLog.slice(lo, hi, maxSize) returns is the entry the logical log holds at index lo + k, whether
   it comes from stable storage, from the unstable tail, or the range straddles the boundary *)
Theorem C18_slice_returns_logical_log : forall st l lo hi maxSize es,
  AppendRefine.l_wf st l -> l_slice st l lo hi maxSize = Ok (es, ENone) ->
  forall k e, nth_error es k = Some e -> a_at (AppendRefine.lview st l) (lo + N.of_nat k) = Some e.
Proof. exact SliceRefine.l_slice_view. Qed.
Print Assumptions C18_slice_returns_logical_log.
