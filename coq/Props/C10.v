(* C10 Membership changes are serialized, node-local half. *)
From Coq Require Import List NArith.
From RaftV Require Import Base Types Quorum Progress Tracker Storage Log Raft RawNode QuorumProofs RaftMono RaftRouting NodeProps PreVoteProofs LocalProofs FlowProofs LogProofs ConfProofs.
Import ListNotations.
Open Scope N_scope.

Theorem C10_gate : forall r li e r' es',
  is_cc_type (e_type e) = true -> r_disable_cc_validation r = false ->
  prop_gate r li 0 [e] = (r', es') ->
  (r_pending_conf_index r <= l_applied (r_log r) /\
   (0 <? nlen (c_outgoing (t_config (r_trk r)))) = e_leave e /\
   cc_accepted r li e = true /\
   es' = [e] /\ r_pending_conf_index r' = li + 1)
  \/
  (es' = [mkEntry 0 0 EntryNormal true [] false false] /\ r' = r).
Proof. exact prop_gate_single. Qed.
Print Assumptions C10_gate.

(* a change that the current configuration does not accept ([cc_accepted]: the payload decoded as
   the code decodes it, then a dry run of the Changer) is replaced by an empty entry: it can never
   reach ApplyConfChange, where it would make every node panic (the F6 repair) *)
Theorem C10_unacceptable_change_refused : forall r li e r' es',
  is_cc_type (e_type e) = true -> r_disable_cc_validation r = false ->
  cc_accepted r li e = false ->
  prop_gate r li 0 [e] = (r', es') ->
  es' = [mkEntry 0 0 EntryNormal true [] false false] /\ r' = r.
Proof. exact prop_gate_refuses_unacceptable. Qed.
Print Assumptions C10_unacceptable_change_refused.

Theorem C10_hup_refuses : forall st r t r',
  has_unapplied_conf_changes st r = Ok true -> hup st r t = Ok r' -> r' = r.
Proof. exact hup_refuses_unapplied_cc. Qed.
Print Assumptions C10_hup_refuses.

Theorem C10_new_leader_pending : forall st r r',
  become_leader st r = Ok r' -> exists r0, reset st r (r_term r) = Ok r0 /\
  r_pending_conf_index r' = l_last_index st (r_log r0) /\ r_state r' = StateLeader /\ r_lead r' = r_id r'.
Proof. exact become_leader_pending_conf. Qed.
Print Assumptions C10_new_leader_pending.

(* the configuration a node switches to is what the Changer computes (C13) *)
Theorem C10_changes_keep_invariants : forall t li ccs c p,
  changer_simple t li ccs = inl (c, p) ->
  cfg_wf c p /\ c_voters c <> [] /\ symdiff (c_voters (t_config t)) (c_voters c) <= 1 /\
  cfg_wf (cfg_clone (t_config t)) (t_progress t).
Proof. exact changer_simple_ok. Qed.
Print Assumptions C10_changes_keep_invariants.

(* votes and commits use both halves of a joint configuration: the decision functions are
   joint_vote / joint_committed, exact by C12 *)
Theorem C10_joint_decisions : forall c0 c1 ack,
  joint_committed c0 c1 ack = N.min (majority_committed c0 ack) (majority_committed c1 ack).
Proof. exact joint_committed_min. Qed.
Print Assumptions C10_joint_decisions.

