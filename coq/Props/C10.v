(* C10 Membership changes are serialized, node-local half. *)
From Coq Require Import List NArith.
From RaftV Require AppendRefine ScanProofs.
From RaftV Require Import Base Types Quorum Progress Tracker Storage Log Raft RawNode QuorumProofs RaftMono RaftRouting NodeProps PreVoteProofs LocalProofs FlowProofs LogProofs ConfProofs.
Import ListNotations.
Open Scope N_scope.

Theorem C10_gate : forall r li e r' es',
  is_cc_type (e_type e) = true -> r_disable_cc_validation r = false ->
  prop_gate r li 0 [e] = (r', es') ->
  (r_pending_conf_index r <= l_applied (r_log r) /\
   (0 <? nlen (c_outgoing (t_config (r_trk r)))) = e_leave e /\
   cc_accepted r li e = true /\
   es' = [e] /\ r_pending_conf_index r' = li + 1)
  \/
  (es' = [mkEntry 0 0 EntryNormal true [] false false] /\ r' = r).
Proof. exact prop_gate_single. Qed.
Print Assumptions C10_gate.

(* a change that the current configuration does not accept ([cc_accepted]: the payload decoded as
   the code decodes it, then a dry run of the Changer) is replaced by an empty entry: it can never
   reach ApplyConfChange, where it would make every node panic (the F6 repair) *)
Theorem C10_unacceptable_change_refused : forall r li e r' es',
  is_cc_type (e_type e) = true -> r_disable_cc_validation r = false ->
  cc_accepted r li e = false ->
  prop_gate r li 0 [e] = (r', es') ->
  es' = [mkEntry 0 0 EntryNormal true [] false false] /\ r' = r.
Proof. exact prop_gate_refuses_unacceptable. Qed.
Print Assumptions C10_unacceptable_change_refused.

Theorem C10_hup_refuses : forall st r t r',
  has_unapplied_conf_changes st r = Ok true -> hup st r t = Ok r' -> r' = r.
Proof. exact hup_refuses_unapplied_cc. Qed.
Print Assumptions C10_hup_refuses.

Theorem C10_new_leader_pending : forall st r r',
  become_leader st r = Ok r' -> exists r0, reset st r (r_term r) = Ok r0 /\
  r_pending_conf_index r' = l_last_index st (r_log r0) /\ r_state r' = StateLeader /\ r_lead r' = r_id r'.
Proof. exact become_leader_pending_conf. Qed.
Print Assumptions C10_new_leader_pending.

(* the configuration a node switches to is what the Changer computes (C13) *)
Theorem C10_changes_keep_invariants : forall t li ccs c p,
  changer_simple t li ccs = inl (c, p) ->
  cfg_wf c p /\ c_voters c <> [] /\ symdiff (c_voters (t_config t)) (c_voters c) <= 1 /\
  cfg_wf (cfg_clone (t_config t)) (t_progress t).
Proof. exact changer_simple_ok. Qed.
Print Assumptions C10_changes_keep_invariants.

(* votes and commits use both halves of a joint configuration: the decision functions are
   joint_vote / joint_committed, exact by C12 *)
Theorem C10_joint_decisions : forall c0 c1 ack,
  joint_committed c0 c1 ack = N.min (majority_committed c0 ack) (majority_committed c1 ack).
Proof. exact joint_committed_min. Qed.
Print Assumptions C10_joint_decisions.


(* ---- protocol level: a joint configuration needs both majorities (Spec/Safety.v) ----
   The protocol theorems of C01 / C04 / C11 are stated for a configuration with incoming voters [vs]
   and outgoing voters [vo] ([] when the configuration is not joint).  A quorum is a strict majority
   of [vs] and, when [vo] is not empty, of [vo] as well; with that notion of quorum every election
   and every commit of the protocol, and therefore State Machine Safety, Leader Completeness and
   ReadIndex, hold in a joint configuration as they do in a simple one.  (The configuration is
   static within one instance of the theorems; the transitions between configurations are covered
   node-locally by the theorems above and by the monitors.) *)
From RaftV Require Safety SafetyJointEx.

Theorem C10_joint_quorum_is_both_majorities : forall vs vo f,
  Safety.majority vs vo f <-> Safety.maj1 vs f /\ (vo = [] \/ Safety.maj1 vo f).
Proof. exact Safety.majority_spec. Qed.
Print Assumptions C10_joint_quorum_is_both_majorities.

Theorem C10_state_machine_safety_in_joint_configuration : forall vs vo p m1 m2 j x y,
  Safety.areach vs vo p -> In (m1, j, x) (snd p) -> In (m2, j, y) (snd p) -> x = y.
Proof. exact Safety.state_machine_safety. Qed.
Print Assumptions C10_state_machine_safety_in_joint_configuration.

(* not vacuous, and the second half matters: with incoming voters {1,2,3} and outgoing voters
   {1,4,5}, the votes of 1 and 2 are no quorum, those of 1, 2 and 4 are; an execution in which node 1
   leads and commits on such quorums and two nodes hand out the committed entry *)
Theorem C10_joint_nonvacuous :
  (~ Safety.majority SafetyJointEx.vin SafetyJointEx.vout (fun q => N.eqb q 1 || N.eqb q 2) /\
   Safety.majority SafetyJointEx.vin SafetyJointEx.vout (fun q => N.eqb q 1 || N.eqb q 2 || N.eqb q 4)) /\
  exists p, Safety.areach SafetyJointEx.vin SafetyJointEx.vout p /\
            In (1, 0%nat, (1, 7)) (snd p) /\ In (4, 0%nat, (1, 7)) (snd p).
Proof. exact (conj SafetyJointEx.joint_needs_both_halves SafetyJointEx.safety_joint_nonvacuous). Qed.
Print Assumptions C10_joint_nonvacuous.

(* The scan behind that refusal is exact on the logical log: hasUnappliedConfChanges answers
   false only if no entry in (applied, committed] is a configuration change (entries handed
   to the application but not yet applied included), so a node that campaigns holds no
   committed configuration change it has not applied. *)
Theorem C10_unapplied_scan_exact : forall st r b,
  AppendRefine.l_wf st (r_log r) -> has_unapplied_conf_changes st r = Ok b ->
  (b = true -> exists i e, l_applied (r_log r) < i <= l_committed (r_log r) /\
                           a_at (AppendRefine.lview st (r_log r)) i = Some e /\ is_cc_type (e_type e) = true) /\
  (b = false -> forall i e, l_applied (r_log r) < i <= l_committed (r_log r) ->
                            a_at (AppendRefine.lview st (r_log r)) i = Some e -> is_cc_type (e_type e) = false).
Proof. exact ScanProofs.has_unapplied_conf_changes_spec. Qed.
Print Assumptions C10_unapplied_scan_exact.

Theorem C10_campaign_only_without_unapplied_change : forall st r t r',
  AppendRefine.l_wf st (r_log r) -> hup st r t = Ok r' -> r' <> r ->
  forall i e, l_applied (r_log r) < i <= l_committed (r_log r) ->
              a_at (AppendRefine.lview st (r_log r)) i = Some e -> is_cc_type (e_type e) = false.
Proof. exact ScanProofs.hup_campaigns_only_without_unapplied_cc. Qed.
Print Assumptions C10_campaign_only_without_unapplied_change.
