(* C07 HardState is monotone: term and commit never go back, one vote per term.
   Statements only; proofs in Proofs/RaftMono.v, Proofs/RaftRouting.v, Proofs/NodeProps.v.

   [hs_le a b]: term and commit do not decrease and, while the term stays the same, the vote
   only goes from none to one candidate.  [node_run] is any node-local history: every RawNode
   API call (Tick, Campaign, Propose, ProposeConfChange, ApplyConfChange, Step of ANY message,
   Ready, Advance, reports, transfer, ReadIndex) and every storage write of the application,
   in any order, with any random draws.  The only hypothesis on inputs is [wf_input]: a
   MsgApp / MsgHeartbeat / MsgSnap stepped into the node carries a non-zero term, which holds
   for every message a raft node sends ([send] stamps it); a forged MsgApp with term 0 would be
   treated as a local message and reset a candidate's term to 0 (see C07_needs_wf). *)
From Coq Require Import List NArith.
From RaftV Require Import Base Types Storage Log Raft RawNode RaftMono RaftRouting NodeProps TermProofs.
Import ListNotations.

(* (a) within an incarnation, over every input sequence *)
Theorem C07_incarnation : forall ins n n' rn,
  n_rn n = Some rn -> inv_rn rn ->
  Forall (fun id => same_incarnation (fst id) = true /\ wf_input (fst id)) ins ->
  node_run n ins = Ok n' ->
  exists rn', n_rn n' = Some rn' /\ inv_rn rn' /\
              hs_le (hard_state (rn_raft rn)) (hard_state (rn_raft rn')).
Proof. exact node_run_mono. Qed.
Print Assumptions C07_incarnation.

(* the hard state a Ready exposes is the node's current hard state, so the exposed (and
   therefore persisted) sequence inherits (a) *)
Theorem C07_exposed : forall st rn rn' rd,
  inv_rn rn -> rn_ready st rn = Ok (rn', rd) ->
  inv_rn rn' /\ same_hs (rn_raft rn) (rn_raft rn') /\
  (forall h, rd_hard rd = Some h -> h = hard_state (rn_raft rn)).
Proof. exact rn_ready_props. Qed.
Print Assumptions C07_exposed.

(* (c) a new incarnation continues from exactly the hard state in storage, and satisfies the
   invariant that (a) starts from *)
Theorem C07_restart : forall st c d rn,
  new_rawnode st c d = Ok rn ->
  inv_rn rn /\
  match ms_hardstate st with
  | Some h => if is_empty_hs h
              then hard_state (rn_raft rn) = mkHS 0 0 (ms_first_index st - 1)
              else hard_state (rn_raft rn) = h
  | None => hard_state (rn_raft rn) = mkHS 0 0 (ms_first_index st - 1)
  end.
Proof. exact new_rawnode_hs. Qed.
Print Assumptions C07_restart.

(* every single message, whatever its type, term and content *)
Theorem C07_step : forall st r m r' e,
  wf_msg m -> step st r m = Ok (r', e) -> hs_le (hard_state r) (hard_state r').
Proof. exact step_mono. Qed.
Print Assumptions C07_step.


(* (d) a node never acts in a term below its hard state (Proofs/TermProofs.v).  [tok T m]: the
   message carries a term of at least T, or it is a forwarded proposal / read request, the two
   kinds that raft sends without a term.  [tex T r r']: from a state whose term is at least T the
   term stays at least T and both outgoing queues only grow, by messages that satisfy [tok T]. *)
Theorem C07_step_emits_no_lower_term : forall T st r m r' e,
  wf_msg m -> step st r m = Ok (r', e) -> tex T r r'.
Proof. exact step_tex. Qed.
Print Assumptions C07_step_emits_no_lower_term.

Theorem C07_tick_emits_no_lower_term : forall T st r r', tick st r = Ok r' -> tex T r r'.
Proof. exact tick_tex. Qed.
Print Assumptions C07_tick_emits_no_lower_term.

(* through the RawNode API, for every input of an incarnation: the invariant "term at least T,
   everything queued satisfies tok T" is kept, and every message a Ready hands to the transport or
   attaches to the storage write (votes, acknowledgements, appends, heartbeats, snapshots)
   satisfies tok T *)
Theorem C07_node_emits_no_lower_term : forall T n i d n' out rn,
  n_rn n = Some rn -> inv_rn rn -> tinv T rn -> same_incarnation i = true -> wf_input i ->
  node_step n i d = Ok (n', out) ->
  exists rn', n_rn n' = Some rn' /\ inv_rn rn' /\ tinv T rn' /\
    (forall rd, out = OReady rd ->
       Forall (tok T) (rd_msgs rd) /\
       (forall sa, rd_append rd = Some sa -> Forall (tok T) (sa_responses sa))).
Proof. exact node_step_term. Qed.
Print Assumptions C07_node_emits_no_lower_term.

Theorem C07_history_no_lower_term : forall T ins n n' rn,
  n_rn n = Some rn -> inv_rn rn -> tinv T rn ->
  Forall (fun id => same_incarnation (fst id) = true /\ wf_input (fst id)) ins ->
  node_run n ins = Ok n' ->
  exists rn', n_rn n' = Some rn' /\ inv_rn rn' /\ tinv T rn'.
Proof. exact node_run_term. Qed.
Print Assumptions C07_history_no_lower_term.

(* a new incarnation satisfies that invariant for its own term, which by C07_restart is the term
   of the last persisted hard state: nothing it ever emits carries a lower term *)
Theorem C07_restart_term_invariant : forall st c d rn,
  new_rawnode st c d = Ok rn -> tinv (r_term (rn_raft rn)) rn.
Proof. exact new_rawnode_tinv. Qed.
Print Assumptions C07_restart_term_invariant.
