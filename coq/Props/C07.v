(* C07 HardState is monotone: term and commit never go back, one vote per term.
   Statements only; proofs in Proofs/RaftMono.v, Proofs/RaftRouting.v, Proofs/NodeProps.v.

   [hs_le a b]: term and commit do not decrease and, while the term stays the same, the vote
   only goes from none to one candidate.  [node_run] is any node-local history: every RawNode
   API call (Tick, Campaign, Propose, ProposeConfChange, ApplyConfChange, Step of ANY message,
   Ready, Advance, reports, transfer, ReadIndex) and every storage write of the application,
   in any order, with any random draws.  The only hypothesis on inputs is [wf_input]: a
   MsgApp / MsgHeartbeat / MsgSnap stepped into the node carries a non-zero term, which holds
   for every message a raft node sends ([send] stamps it); a forged MsgApp with term 0 would be
   treated as a local message and reset a candidate's term to 0 (see C07_needs_wf). *)
From Coq Require Import List NArith.
From RaftV Require Import Base Types Storage Log Raft RawNode RaftMono RaftRouting NodeProps.
Import ListNotations.

(* (a) within an incarnation, over every input sequence *)
Theorem C07_incarnation : forall ins n n' rn,
  n_rn n = Some rn -> inv_rn rn ->
  Forall (fun id => same_incarnation (fst id) = true /\ wf_input (fst id)) ins ->
  node_run n ins = Ok n' ->
  exists rn', n_rn n' = Some rn' /\ inv_rn rn' /\
              hs_le (hard_state (rn_raft rn)) (hard_state (rn_raft rn')).
Proof. exact node_run_mono. Qed.
Print Assumptions C07_incarnation.

(* the hard state a Ready exposes is the node's current hard state, so the exposed (and
   therefore persisted) sequence inherits (a) *)
Theorem C07_exposed : forall st rn rn' rd,
  inv_rn rn -> rn_ready st rn = Ok (rn', rd) ->
  inv_rn rn' /\ same_hs (rn_raft rn) (rn_raft rn') /\
  (forall h, rd_hard rd = Some h -> h = hard_state (rn_raft rn)).
Proof. exact rn_ready_props. Qed.
Print Assumptions C07_exposed.

(* (c) a new incarnation continues from exactly the hard state in storage, and satisfies the
   invariant that (a) starts from *)
Theorem C07_restart : forall st c d rn,
  new_rawnode st c d = Ok rn ->
  inv_rn rn /\
  match ms_hardstate st with
  | Some h => if is_empty_hs h
              then hard_state (rn_raft rn) = mkHS 0 0 (ms_first_index st - 1)
              else hard_state (rn_raft rn) = h
  | None => hard_state (rn_raft rn) = mkHS 0 0 (ms_first_index st - 1)
  end.
Proof. exact new_rawnode_hs. Qed.
Print Assumptions C07_restart.

(* every single message, whatever its type, term and content *)
Theorem C07_step : forall st r m r' e,
  wf_msg m -> step st r m = Ok (r', e) -> hs_le (hard_state r) (hard_state r').
Proof. exact step_mono. Qed.
Print Assumptions C07_step.
