(* C17 PreVote and CheckQuorum prevent disruption.  Statements only (proofs in
   Proofs/PreVoteProofs.v), over Model/Raft.v, for every state and every message. *)
From Coq Require Import List NArith.
From RaftV Require Import Base Types Quorum Progress Tracker Storage Log Raft RawNode RaftMono PreVoteProofs.
From RaftV Require Import CheckQuorumProofs CheckQuorumEx.
Import ListNotations.
Open Scope N_scope.

(* receiving a pre-vote request never changes the receiver's term or vote *)
Theorem C17_prevote_request_no_effect : forall st r m r' e,
  m_type m = MsgPreVote -> step st r m = Ok (r', e) -> same_tv r r'.
Proof. exact prevote_request_no_effect. Qed.
Print Assumptions C17_prevote_request_no_effect.

(* becoming a pre-candidate leaves term and vote untouched *)
Theorem C17_become_pre_candidate : forall r r', become_pre_candidate r = Ok r' -> same_tv r r'.
Proof. exact become_pre_candidate_tv. Qed.
Print Assumptions C17_become_pre_candidate.

(* with PreVote, an election timeout or Campaign() (MsgHup) does not raise the term *)
Theorem C17_hup_keeps_term : forall st r m r' e,
  m_type m = MsgHup -> m_term m = 0 -> r_pre_vote r = true ->
  step st r m = Ok (r', e) -> same_tv r r'.
Proof. exact prevote_hup_keeps_term. Qed.
Print Assumptions C17_hup_keeps_term.

(* a pre-candidate raises its term only when a MsgPreVoteResp (a rejection, or a grant for
   exactly Term+1) completes the tally over the joint configuration (the decision function
   of C12), or a leader message of its term arrives *)
Theorem C17_precandidate_term_raise : forall st r m r' e,
  r_state r = StatePreCandidate -> step_candidate st r m = Ok (r', e) -> r_term r' <> r_term r ->
  from_leader (m_type m) = true \/
  (m_type m = MsgPreVoteResp /\ (m_reject m = true \/ m_term m = r_term r + 1) /\
   joint_vote (c_voters (t_config (r_trk r))) (c_outgoing (t_config (r_trk r)))
              (t_votes (record_vote (r_trk r) (m_from m) (negb (m_reject m)))) <> VotePending).
Proof. exact precandidate_term_raise. Qed.
Print Assumptions C17_precandidate_term_raise.

(* a pre-vote grant for any other term (a stale answer to an earlier pre-campaign) is ignored *)
Theorem C17_stale_grant_ignored : forall st r m r' e,
  r_state r = StatePreCandidate -> m_type m = MsgPreVoteResp -> m_reject m = false ->
  m_term m <> r_term r + 1 -> step_candidate st r m = Ok (r', e) -> r' = r.
Proof. exact stale_prevote_grant_ignored. Qed.
Print Assumptions C17_stale_grant_ignored.

(* CheckQuorum lease: inside the election timeout of a known leader, a non-forced higher-term
   vote or pre-vote request changes nothing and produces nothing *)
Theorem C17_in_lease_ignored : forall st r m r' e,
  (m_type m = MsgVote \/ m_type m = MsgPreVote) ->
  r_check_quorum r = true -> r_lead r <> NoneId -> r_election_elapsed r < r_election_timeout r ->
  r_term r < m_term m -> m_context m <> campaign_transfer_ctx ->
  step st r m = Ok (r', e) -> r' = r /\ e = ENone.
Proof. exact in_lease_vote_ignored. Qed.
Print Assumptions C17_in_lease_ignored.


(* ---- CheckQuorum: the step-down of a leader (Proofs/CheckQuorumProofs.v) ---- *)

(* whatever message a leader steps (any type, term and content, except a leadership-transfer
   request and the local check itself): if it is still leader of its term afterwards, its term,
   vote, lead, election timer and configuration are unchanged and the only peer that can be newly
   marked recently active is the sender of a MsgAppResp or MsgHeartbeatResp *)
Theorem C17_leader_hears_only_responses : forall st r m r' e,
  r_state r = StateLeader -> r_lead r <> NoneId -> admissible r m ->
  step st r m = Ok (r', e) ->
  r_state r' = StateLeader -> r_term r' = r_term r -> lk (heard m) r r'.
Proof. exact step_leader_frame. Qed.
Print Assumptions C17_leader_hears_only_responses.

(* one tick of a leader with CheckQuorum that stays leader of its term: the election timer
   advances, or the check fires, finds a quorum marked active, restarts the timer and clears every
   mark but the leader's own *)
Theorem C17_check_quorum_tick : forall st r r',
  r_state r = StateLeader -> r_check_quorum r = true -> r_lead r <> NoneId ->
  tick st r = Ok r' -> r_state r' = StateLeader -> r_term r' = r_term r ->
  lstate0 r' = lstate0 r /\
  if r_election_timeout r <=? r_election_elapsed r + 1
  then quorum_active (r_trk r) = true /\ r_election_elapsed r' = 0 /\ act_in (fun i => i = r_id r) r'
  else r_election_elapsed r' = r_election_elapsed r + 1 /\ forall S, act_in S r -> act_in S r'.
Proof. exact tick_leader. Qed.
Print Assumptions C17_check_quorum_tick.

(* over every sequence of ticks and messages: a leader that hears only from peers that together
   with itself are not a quorum (by the decision function of C12, for every voter set of a joint
   configuration) is no longer leader of its term after at most two election timeouts of ticks *)
Theorem C17_check_quorum_steps_down : forall st r H ops rf,
  r_state r = StateLeader -> r_check_quorum r = true -> r_lead r <> NoneId ->
  1 <= r_election_timeout r ->
  no_quorum r H -> ops_ok r H ops ->
  lrun st r ops = Ok rf -> 2 * r_election_timeout r <= ticks ops ->
  left_term st r ops.
Proof. exact check_quorum_steps_down. Qed.
Print Assumptions C17_check_quorum_steps_down.

(* the hypotheses are satisfiable: an elected leader of three voters that only ticks *)
Theorem C17_check_quorum_nonvacuous :
  exists st r ops rf,
    r_state r = StateLeader /\ r_check_quorum r = true /\ r_lead r <> NoneId /\
    1 <= r_election_timeout r /\ no_quorum r [] /\ ops_ok r [] ops /\
    lrun st r ops = Ok rf /\ 2 * r_election_timeout r <= ticks ops /\
    r_state rf = StateFollower /\ left_term st r ops.
Proof. exact check_quorum_nonvacuous. Qed.
Print Assumptions C17_check_quorum_nonvacuous.


(* the exclusion of leadership-transfer requests is necessary: with them the leader of the example
   above still leads its term after three election timeouts of ticks without hearing from anybody
   (finding F13; replayed on the implementation by corpus/f13_transfer_postpones_checkquorum.sched) *)
Theorem C17_unrestricted_refuted :
  exists st r ops rf,
    r_state r = StateLeader /\ r_check_quorum r = true /\ r_lead r <> NoneId /\
    1 <= r_election_timeout r /\ no_quorum r [] /\
    Forall (fun o => match o with LTick => True | LStep m => marks m = false end) ops /\
    lrun st r ops = Ok rf /\ 2 * r_election_timeout r <= ticks ops /\
    ~ left_term st r ops.
Proof. exact check_quorum_unrestricted_refuted. Qed.
Print Assumptions C17_unrestricted_refuted.

(* ---- a leader knows itself as the leader (Proofs/RoleProofs.v) ----
   [coh r]: the node's id is not 0 and, if it is leader, its [lead] is its own id.  Established by
   newRaft, kept by every message, tick, configuration change and every input of the RawNode API;
   with it the hypothesis [r_lead r <> NoneId] of the CheckQuorum theorem above holds in every
   reachable state. *)
From RaftV Require RoleProofs.
From RaftV Require Import RawNode NodeProps.

Theorem C17_leader_knows_itself_step : forall st r m r' e,
  step st r m = Ok (r', e) -> RoleProofs.coh r -> RoleProofs.coh r'.
Proof. exact RoleProofs.step_ck. Qed.
Print Assumptions C17_leader_knows_itself_step.

Theorem C17_leader_knows_itself_tick : forall st r r',
  tick st r = Ok r' -> RoleProofs.coh r -> RoleProofs.coh r'.
Proof. exact RoleProofs.tick_ck. Qed.
Print Assumptions C17_leader_knows_itself_tick.

Theorem C17_leader_knows_itself_history : forall ins n n' rn,
  n_rn n = Some rn -> RoleProofs.rcoh rn ->
  Forall (fun id => same_incarnation (fst id) = true) ins ->
  node_run n ins = Ok n' ->
  exists rn', n_rn n' = Some rn' /\ RoleProofs.rcoh rn'.
Proof. exact RoleProofs.node_run_coh. Qed.
Print Assumptions C17_leader_knows_itself_history.

Theorem C17_leader_knows_itself_start : forall st c d rn,
  new_rawnode st c d = Ok rn -> RoleProofs.rcoh rn.
Proof. exact RoleProofs.new_rawnode_coh. Qed.
Print Assumptions C17_leader_knows_itself_start.

Theorem C17_check_quorum_steps_down_reachable : forall st r H ops rf,
  RoleProofs.coh r -> r_state r = StateLeader -> r_check_quorum r = true ->
  1 <= r_election_timeout r ->
  no_quorum r H -> ops_ok r H ops ->
  lrun st r ops = Ok rf -> 2 * r_election_timeout r <= ticks ops ->
  left_term st r ops.
Proof. exact RoleProofs.check_quorum_steps_down_reachable. Qed.
Print Assumptions C17_check_quorum_steps_down_reachable.

(* a granted pre-vote response at a node that is not a pre-candidate (a delayed answer to a
   pre-campaign that is over) changes nothing, whatever term it carries *)
Theorem C17_prevote_grant_elsewhere_ignored : forall st r m r' e,
  m_type m = MsgPreVoteResp -> m_reject m = false -> r_state r <> StatePreCandidate ->
  step st r m = Ok (r', e) -> r' = r.
Proof. exact RoleProofs.prevote_grant_elsewhere_ignored. Qed.
Print Assumptions C17_prevote_grant_elsewhere_ignored.
