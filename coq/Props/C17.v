(* C17 PreVote and CheckQuorum prevent disruption.  Statements only (proofs in
   Proofs/PreVoteProofs.v), over Model/Raft.v, for every state and every message. *)
From Coq Require Import List NArith.
From RaftV Require Import Base Types Quorum Progress Tracker Storage Log Raft RawNode RaftMono PreVoteProofs.
Import ListNotations.
Open Scope N_scope.

(* receiving a pre-vote request never changes the receiver's term or vote *)
Theorem C17_prevote_request_no_effect : forall st r m r' e,
  m_type m = MsgPreVote -> step st r m = Ok (r', e) -> same_tv r r'.
Proof. exact prevote_request_no_effect. Qed.
Print Assumptions C17_prevote_request_no_effect.

(* becoming a pre-candidate leaves term and vote untouched *)
Theorem C17_become_pre_candidate : forall r r', become_pre_candidate r = Ok r' -> same_tv r r'.
Proof. exact become_pre_candidate_tv. Qed.
Print Assumptions C17_become_pre_candidate.

(* with PreVote, an election timeout or Campaign() (MsgHup) does not raise the term *)
Theorem C17_hup_keeps_term : forall st r m r' e,
  m_type m = MsgHup -> m_term m = 0 -> r_pre_vote r = true ->
  step st r m = Ok (r', e) -> same_tv r r'.
Proof. exact prevote_hup_keeps_term. Qed.
Print Assumptions C17_hup_keeps_term.

(* a pre-candidate raises its term only when a MsgPreVoteResp (a rejection, or a grant for
   exactly Term+1) completes the tally over the joint configuration (the decision function
   of C12), or a leader message of its term arrives *)
Theorem C17_precandidate_term_raise : forall st r m r' e,
  r_state r = StatePreCandidate -> step_candidate st r m = Ok (r', e) -> r_term r' <> r_term r ->
  from_leader (m_type m) = true \/
  (m_type m = MsgPreVoteResp /\ (m_reject m = true \/ m_term m = r_term r + 1) /\
   joint_vote (c_voters (t_config (r_trk r))) (c_outgoing (t_config (r_trk r)))
              (t_votes (record_vote (r_trk r) (m_from m) (negb (m_reject m)))) <> VotePending).
Proof. exact precandidate_term_raise. Qed.
Print Assumptions C17_precandidate_term_raise.

(* a pre-vote grant for any other term (a stale answer to an earlier pre-campaign) is ignored *)
Theorem C17_stale_grant_ignored : forall st r m r' e,
  r_state r = StatePreCandidate -> m_type m = MsgPreVoteResp -> m_reject m = false ->
  m_term m <> r_term r + 1 -> step_candidate st r m = Ok (r', e) -> r' = r.
Proof. exact stale_prevote_grant_ignored. Qed.
Print Assumptions C17_stale_grant_ignored.

(* CheckQuorum lease: inside the election timeout of a known leader, a non-forced higher-term
   vote or pre-vote request changes nothing and produces nothing *)
Theorem C17_in_lease_ignored : forall st r m r' e,
  (m_type m = MsgVote \/ m_type m = MsgPreVote) ->
  r_check_quorum r = true -> r_lead r <> NoneId -> r_election_elapsed r < r_election_timeout r ->
  r_term r < m_term m -> m_context m <> campaign_transfer_ctx ->
  step st r m = Ok (r', e) -> r' = r /\ e = ENone.
Proof. exact in_lease_vote_ignored. Qed.
Print Assumptions C17_in_lease_ignored.
