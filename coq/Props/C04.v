(* C04 Leader completeness, node-local half: votes only for up-to-date logs, commit only of
   own-term entries on the quorum index.  The cluster-level statement is checked by the
   monitors at every leadership change. *)
From Coq Require Import List NArith.
From RaftV Require Import Base Types Quorum Progress Tracker Storage Log Raft RawNode QuorumProofs RaftMono RaftRouting NodeProps PreVoteProofs LocalProofs FlowProofs LogProofs ConfProofs.
Import ListNotations.
Open Scope N_scope.

Theorem C04_votes_need_up_to_date_log : forall st r m r' e,
  (m_type m = MsgVote \/ m_type m = MsgPreVote) ->
  step_dispatch st (step_inner st) r m = Ok (r', e) ->
  forall x, In x (r_msgs_after_append r') -> ~ In x (r_msgs_after_append r) -> m_reject x = false ->
  l_is_up_to_date st (r_log r) (m_logterm m) (m_index m) = Ok true /\
  (r_vote r = m_from m \/ (r_vote r = NoneId /\ r_lead r = NoneId) \/
   (m_type m = MsgPreVote /\ r_term r < m_term m)) /\
  (m_type m = MsgVote -> r_vote r' = m_from m) /\
  m_to x = m_from m /\ m_term x = m_term m.
Proof. exact vote_grant_conditions. Qed.
Print Assumptions C04_votes_need_up_to_date_log.

Theorem C04_commit_own_term_on_quorum : forall st r r' b,
  maybe_commit st r = Ok (r', b) ->
  (b = false -> r' = r) /\
  (b = true ->
     l_committed (r_log r') = t_committed (r_trk r) /\
     l_committed (r_log r) < t_committed (r_trk r) /\
     l_match_term st (r_log r) (t_committed (r_trk r)) (r_term r) = true /\
     t_committed (r_trk r) <= l_last_index st (r_log r)).
Proof. exact maybe_commit_spec. Qed.
Print Assumptions C04_commit_own_term_on_quorum.

