(* C04 Leader completeness, node-local half: votes only for up-to-date logs, commit only of
   own-term entries on the quorum index.  The cluster-level statement is checked by the
   monitors at every leadership change. *)
From Coq Require Import List NArith.
From RaftV Require LogMatching Safety SafetyEx.
From RaftV Require AppendRefine.
From RaftV Require Import Base Types Quorum Progress Tracker Storage Log Raft RawNode QuorumProofs RaftMono RaftRouting NodeProps PreVoteProofs LocalProofs FlowProofs LogProofs ConfProofs.
Import ListNotations.
Open Scope N_scope.

Theorem C04_votes_need_up_to_date_log : forall st r m r' e,
  (m_type m = MsgVote \/ m_type m = MsgPreVote) ->
  step_dispatch st (step_inner st) r m = Ok (r', e) ->
  forall x, In x (r_msgs_after_append r') -> ~ In x (r_msgs_after_append r) -> m_reject x = false ->
  l_is_up_to_date st (r_log r) (m_logterm m) (m_index m) = Ok true /\
  (r_vote r = m_from m \/ (r_vote r = NoneId /\ r_lead r = NoneId) \/
   (m_type m = MsgPreVote /\ r_term r < m_term m)) /\
  (m_type m = MsgVote -> r_vote r' = m_from m) /\
  m_to x = m_from m /\ m_term x = m_term m.
Proof. exact vote_grant_conditions. Qed.
Print Assumptions C04_votes_need_up_to_date_log.

Theorem C04_commit_own_term_on_quorum : forall st r r' b,
  maybe_commit st r = Ok (r', b) ->
  (b = false -> r' = r) /\
  (b = true ->
     l_committed (r_log r') = t_committed (r_trk r) /\
     l_committed (r_log r) < t_committed (r_trk r) /\
     l_match_term st (r_log r) (t_committed (r_trk r)) (r_term r) = true /\
     t_committed (r_trk r) <= l_last_index st (r_log r)).
Proof. exact maybe_commit_spec. Qed.
Print Assumptions C04_commit_own_term_on_quorum.



(* ---------- protocol level (Spec/Safety.v) ---------- *)

(* Leader Completeness for every reachable state of the protocol of Spec/Safety.v (see C01.v for
   its rules): whenever a candidate of term t holds the votes of a majority and no leadership of
   t exists yet (the moment it becomes leader), its log already agrees, through position i, with
   the log of every earlier leadership t0 < t that committed position i. *)
Theorem C04_new_leader_holds_committed : forall vs vo s c t i e t0,
  Safety.sreach vs vo s ->
  Safety.tm s c = t -> Safety.cnd s c = true -> LogMatching.active (Safety.sg s) t = false -> Safety.majority vs vo (Safety.voted_for s t c) ->
  In (i, e, t0) (Safety.commits s) -> (t0 < t)%N ->
  LogMatching.agree (S i) (Safety.nlog s c) (Safety.L s t0).
Proof.
  intros vs vo s c t i e t0 R. exact (Safety.cand_has_committed vs vo s c t i e t0 (Safety.sreach_sinv vs vo s R)).
Qed.
Print Assumptions C04_new_leader_holds_committed.

(* ... and every later leadership's log keeps holding it, at the same position *)
Theorem C04_leader_completeness_protocol : forall vs vo s i e t,
  Safety.sreach vs vo s -> In (i, e, t) (Safety.commits s) ->
  forall t' j x, LogMatching.active (Safety.sg s) t' = true -> (t < t')%N -> (j <= i)%nat ->
    nth_error (Safety.L s t) j = Some x -> nth_error (Safety.L s t') j = Some x.
Proof.
  intros vs vo s i e t R. exact (Safety.leader_completeness vs vo s i e t (Safety.sreach_sinv vs vo s R)).
Qed.
Print Assumptions C04_leader_completeness_protocol.

(* no leader overwrites or truncates such an entry on a follower: a node whose log agrees with a
   committing leadership through j still does after any step in which it keeps position j at all
   (only its own crash can take an unacknowledged suffix away) *)
Theorem C04_followers_keep_committed : forall vs vo s s' m j t,
  Safety.SInv vs vo s -> Safety.sstep vs vo s s' -> Safety.can_learn s m j t ->
  (S j <= length (Safety.nlog s' m))%nat -> Safety.can_learn s' m j t.
Proof. exact Safety.can_learn_stable. Qed.
Print Assumptions C04_followers_keep_committed.


(* the voter's test raftLog.isUpToDate(candidate's last term, last index) is the up-to-date rule
   of Spec/Safety.v on the voter's logical log (Proofs/AppendRefine.v) *)
Theorem C04_up_to_date_is_protocol_rule : forall (pay : entry -> N) st l term index b lc,
  AppendRefine.l_wf st l -> a_base (AppendRefine.lview st l) = 0 -> a_base_term (AppendRefine.lview st l) = 0 ->
  Safety.lastT lc = term -> N.of_nat (length lc) = index ->
  l_is_up_to_date st l term index = Ok b ->
  (b = true <-> Safety.utd lc (AppendRefine.absl pay (AppendRefine.lview st l))).
Proof. exact AppendRefine.l_is_up_to_date_view. Qed.
Print Assumptions C04_up_to_date_is_protocol_rule.
