(* C13 Configuration algebra keeps its invariants.  Statements only; proofs in
   Proofs/ConfProofs.v.  [cfg_wf] is the proposition checked by checkInvariants. *)
From Coq Require Import List NArith.
From RaftV Require Import Base Types Quorum Progress Tracker Storage Log Raft RawNode QuorumProofs RaftMono RaftRouting NodeProps PreVoteProofs LocalProofs FlowProofs LogProofs ConfProofs.
Import ListNotations.
Open Scope N_scope.

Theorem C13_check_invariants : forall c p, check_invariants c p = true -> cfg_wf c p.
Proof. exact check_invariants_sound. Qed.
Print Assumptions C13_check_invariants.

Theorem C13_simple : forall t li ccs c p,
  changer_simple t li ccs = inl (c, p) ->
  cfg_wf c p /\ c_voters c <> [] /\ symdiff (c_voters (t_config t)) (c_voters c) <= 1 /\
  cfg_wf (cfg_clone (t_config t)) (t_progress t).
Proof. exact changer_simple_ok. Qed.
Print Assumptions C13_simple.

Theorem C13_enter_joint : forall t li al ccs c p,
  changer_enter_joint t li al ccs = inl (c, p) ->
  cfg_wf c p /\ c_voters c <> [] /\ c_outgoing c = c_voters (t_config t) /\ c_outgoing c <> [] /\
  c_auto_leave c = al.
Proof. exact changer_enter_joint_ok. Qed.
Print Assumptions C13_enter_joint.

Theorem C13_leave_joint : forall t c p,
  changer_leave_joint t = inl (c, p) ->
  cfg_wf c p /\ c_voters c = c_voters (t_config t) /\ c_outgoing c = [] /\ c_learners_next c = [] /\
  c_auto_leave c = false /\ c_outgoing (t_config t) <> [].
Proof. exact changer_leave_joint_ok. Qed.
Print Assumptions C13_leave_joint.


(* Restore: the half of the round-trip clause that is a theorem.  That the four sets of the
   result equal those of the ConfState is decided by the correspondence check (closure of
   the configuration graph over a bounded id universe, Go and model edge by edge). *)
Theorem C13_restore_invariants_partial : forall t li cs c p,
  cc_restore t li cs = inl (c, p) -> cs_voters cs <> [] ->
  cfg_wf c p /\ c_voters c <> [] /\
  (cs_voters_outgoing cs <> [] -> c_outgoing c <> [] /\ c_auto_leave c = cs_auto_leave cs) /\
  (cs_voters_outgoing cs = [] -> c_outgoing c = [] /\ c_learners_next c = [] /\ c_auto_leave c = false).
Proof. exact restore_ok. Qed.
Print Assumptions C13_restore_invariants_partial.

(* Restore, outgoing half of the round-trip as a theorem: restoring a joint ConfState into a
   fresh tracker yields exactly its VotersOutgoing as the outgoing voter set (id 0 is skipped
   by the Changer, as in the code). *)
Theorem C13_restore_outgoing_roundtrip : forall mi mb li cs c p,
  cc_restore (make_tracker mi mb) li cs = inl (c, p) -> cs_voters_outgoing cs <> [] ->
  forall x, In x (c_outgoing c) <-> In x (cs_voters_outgoing cs) /\ x <> 0.
Proof. exact restore_outgoing_fresh. Qed.
Print Assumptions C13_restore_outgoing_roundtrip.

(* Restore, voter half of the round-trip for a non-joint ConfState whose voters are not also
   listed as learners (what ConfState() of a valid configuration produces). *)
Theorem C13_restore_voters_roundtrip : forall mi mb li cs c p,
  cc_restore (make_tracker mi mb) li cs = inl (c, p) -> cs_voters_outgoing cs = [] ->
  (forall x, In x (cs_voters cs) -> ~ In x (cs_learners cs) /\ ~ In x (cs_learners_next cs)) ->
  forall x, In x (c_voters c) <-> In x (cs_voters cs) /\ x <> 0.
Proof. exact restore_voters_fresh. Qed.
Print Assumptions C13_restore_voters_roundtrip.

(* Restore, incoming-voter half of the round-trip for a joint ConfState (same side condition). *)
Theorem C13_restore_voters_joint_roundtrip : forall mi mb li cs c p,
  cc_restore (make_tracker mi mb) li cs = inl (c, p) -> cs_voters_outgoing cs <> [] ->
  (forall x, In x (cs_voters cs) -> ~ In x (cs_learners cs) /\ ~ In x (cs_learners_next cs)) ->
  forall x, In x (c_voters c) <-> In x (cs_voters cs) /\ x <> 0.
Proof. exact restore_voters_joint_fresh. Qed.
Print Assumptions C13_restore_voters_joint_roundtrip.

(* Restore, learner half of the round-trip for a non-joint ConfState: the learners of the
   result are its Learners together with its LearnersNext (empty in the ConfState of a valid
   non-joint configuration). *)
Theorem C13_restore_learners_roundtrip : forall mi mb li cs c p,
  cc_restore (make_tracker mi mb) li cs = inl (c, p) -> cs_voters_outgoing cs = [] ->
  forall x, In x (c_learners c) <-> (In x (cs_learners cs) \/ In x (cs_learners_next cs)) /\ x <> 0.
Proof. exact restore_learners_fresh. Qed.
Print Assumptions C13_restore_learners_roundtrip.

(* Restore, learner half of the round-trip for a joint ConfState: the ids it names as Learners
   or LearnersNext become learners when they are not outgoing voters and staged learners
   (LearnersNext) when they are.  For the ConfState of a valid configuration (Learners disjoint
   from VotersOutgoing, LearnersNext inside it) that is: Learners and LearnersNext come back. *)
Theorem C13_restore_learners_joint_roundtrip : forall mi mb li cs c p,
  cc_restore (make_tracker mi mb) li cs = inl (c, p) -> cs_voters_outgoing cs <> [] ->
  forall x,
    (In x (c_learners c) <->
       (In x (cs_learners cs) \/ In x (cs_learners_next cs)) /\ x <> 0 /\ ~ In x (cs_voters_outgoing cs)) /\
    (In x (c_learners_next c) <->
       (In x (cs_learners cs) \/ In x (cs_learners_next cs)) /\ x <> 0 /\ In x (cs_voters_outgoing cs)).
Proof. exact restore_learners_joint_fresh. Qed.
Print Assumptions C13_restore_learners_joint_roundtrip.

(* "every member has exactly one progress record (and non-members none)": the first half is a
   clause of cfg_wf above; the second half is not tested by checkInvariants and is an invariant
   of the Changer ([pinv c p]: whoever has a progress record is an incoming or outgoing voter,
   a learner or a staged learner).  It holds of the empty tracker and every accepted Simple /
   EnterJoint / LeaveJoint keeps it. *)
Theorem C13_only_members_have_progress : forall t li al ccs c p,
  pinv (t_config t) (t_progress t) ->
  (changer_simple t li ccs = inl (c, p) -> pinv c p) /\
  (changer_enter_joint t li al ccs = inl (c, p) -> pinv c p) /\
  (changer_leave_joint t = inl (c, p) -> pinv c p).
Proof.
  intros t li al ccs c p PI.
  exact (conj (changer_simple_pinv t li ccs c p PI)
        (conj (changer_enter_joint_pinv t li al ccs c p PI) (changer_leave_joint_pinv t c p PI))).
Qed.
Print Assumptions C13_only_members_have_progress.

Theorem C13_only_members_have_progress_initially : forall mi mb,
  pinv (t_config (make_tracker mi mb)) (t_progress (make_tracker mi mb)).
Proof. exact pinv_fresh. Qed.
Print Assumptions C13_only_members_have_progress_initially.
