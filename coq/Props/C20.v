(* C20 Proposal integrity, node-local half. *)
From Coq Require Import List NArith.
From RaftV Require Import Base Types Quorum Progress Tracker Storage Log Raft RawNode QuorumProofs RaftMono RaftRouting NodeProps PreVoteProofs LocalProofs FlowProofs LogProofs ConfProofs.
From RaftV Require AppendRefine.
From RaftV Require Import ProposalProofs ProposalEx.
Import ListNotations.
Open Scope N_scope.

Theorem C20_stamp_preserves : forall term es next,
  map e_type (stamp term next es) = map e_type es /\
  map e_data (stamp term next es) = map e_data es /\
  length (stamp term next es) = length es /\
  Forall (fun e => e_term e = term) (stamp term next es).
Proof. exact stamp_preserves. Qed.
Print Assumptions C20_stamp_preserves.

Theorem C20_dropped_appends_nothing : forall st r es r', append_entry st r es = Ok (r', false) -> r' = r.
Proof. exact append_entry_dropped. Qed.
Print Assumptions C20_dropped_appends_nothing.

Theorem C20_follower_forwards_or_drops : forall st r m r' e,
  m_type m = MsgProp -> m_term m = 0 -> step_follower st r m = Ok (r', e) ->
  (e = ErrProposalDropped /\ r' = r) \/
  (e = ENone /\ r_lead r <> NoneId /\ exists m', r_msgs r' = r_msgs r ++ [m'] /\
     m_entries m' = m_entries m /\ m_to m' = r_lead r /\ m_type m' = MsgProp).
Proof. exact follower_forwards_or_drops. Qed.
Print Assumptions C20_follower_forwards_or_drops.

Theorem C20_candidate_drops : forall st r m r' e,
  m_type m = MsgProp -> step_candidate st r m = Ok (r', e) -> e = ErrProposalDropped /\ r' = r.
Proof. exact candidate_drops_proposals. Qed.
Print Assumptions C20_candidate_drops.



(* ---- what a proposal does to the logical log (Proofs/ProposalProofs.v) ---- *)

(* the gate keeps every entry of a proposal in its place; the only change it may make is to replace
   a configuration change by an empty normal entry; it never touches the log *)
Theorem C20_gate_shape : forall es r li i r' es',
  prop_gate r li i es = (r', es') -> same_log r r' /\ r_term r' = r_term r /\ Forall2 gated es es'.
Proof. exact prop_gate_shape. Qed.
Print Assumptions C20_gate_shape.

(* a proposal at a leader: reported as dropped and the log untouched, or accepted and the logical
   log (stable storage followed by the unstable tail) extended at its end by exactly the gated
   entries of the proposal, in order, stamped with the leader's term and the next indexes
   (C20_stamp_preserves: type and payload bit for bit) *)
Theorem C20_leader_propose : forall st r m r' e,
  m_type m = MsgProp -> AppendRefine.l_wf st (r_log r) ->
  step_leader st r m = Ok (r', e) ->
  (e = ErrProposalDropped /\ same_log r r') \/
  (e = ENone /\ AppendRefine.l_wf st (r_log r') /\
   exists es', Forall2 gated (m_entries m) es' /\
     AppendRefine.lview st (r_log r') =
       extended (AppendRefine.lview st (r_log r)) (stamp (r_term r) (last_index st r + 1) es')).
Proof. exact leader_propose. Qed.
Print Assumptions C20_leader_propose.

(* Propose / ProposeConfChange through Step in any role: nothing is invented and nothing is lost;
   the log is left exactly as it was (dropped, or forwarded by a follower), or extended as above *)
Theorem C20_step_propose : forall st r m r' e,
  m_type m = MsgProp -> m_term m = 0 -> AppendRefine.l_wf st (r_log r) ->
  step st r m = Ok (r', e) ->
  same_log r r' \/
  (r_state r = StateLeader /\ e = ENone /\ AppendRefine.l_wf st (r_log r') /\
   exists es', Forall2 gated (m_entries m) es' /\
     AppendRefine.lview st (r_log r') =
       extended (AppendRefine.lview st (r_log r)) (stamp (r_term r) (last_index st r + 1) es')).
Proof. exact step_propose. Qed.
Print Assumptions C20_step_propose.

(* the one entry raft adds on its own per leadership: an empty normal entry of the new term *)
Theorem C20_one_empty_entry_per_leadership : forall st r r',
  AppendRefine.l_wf st (r_log r) -> become_leader st r = Ok r' ->
  AppendRefine.l_wf st (r_log r') /\
  AppendRefine.lview st (r_log r') =
    extended (AppendRefine.lview st (r_log r))
             [mkEntry (r_term r) (last_index st r + 1) EntryNormal false [] false false].
Proof. exact become_leader_view. Qed.
Print Assumptions C20_one_empty_entry_per_leadership.

(* the hypotheses are satisfiable: a concrete leader and a proposal with payload [7] *)
Theorem C20_proposal_nonvacuous :
  exists st r m r' e,
    m_type m = MsgProp /\ m_term m = 0 /\ AppendRefine.l_wf st (r_log r) /\ r_state r = StateLeader /\
    step st r m = Ok (r', e) /\ e = ENone /\
    AppendRefine.lview st (r_log r') =
      extended (AppendRefine.lview st (r_log r)) [mkEntry 1 3 EntryNormal false [7] true false].
Proof. exact proposal_nonvacuous. Qed.
Print Assumptions C20_proposal_nonvacuous.
