(* C20 Proposal integrity, node-local half. *)
From Coq Require Import List NArith.
From RaftV Require Import Base Types Quorum Progress Tracker Storage Log Raft RawNode QuorumProofs RaftMono RaftRouting NodeProps PreVoteProofs LocalProofs FlowProofs LogProofs ConfProofs.
Import ListNotations.
Open Scope N_scope.

Theorem C20_stamp_preserves : forall term es next,
  map e_type (stamp term next es) = map e_type es /\
  map e_data (stamp term next es) = map e_data es /\
  length (stamp term next es) = length es /\
  Forall (fun e => e_term e = term) (stamp term next es).
Proof. exact stamp_preserves. Qed.
Print Assumptions C20_stamp_preserves.

Theorem C20_dropped_appends_nothing : forall st r es r', append_entry st r es = Ok (r', false) -> r' = r.
Proof. exact append_entry_dropped. Qed.
Print Assumptions C20_dropped_appends_nothing.

Theorem C20_follower_forwards_or_drops : forall st r m r' e,
  m_type m = MsgProp -> m_term m = 0 -> step_follower st r m = Ok (r', e) ->
  (e = ErrProposalDropped /\ r' = r) \/
  (e = ENone /\ r_lead r <> NoneId /\ exists m', r_msgs r' = r_msgs r ++ [m'] /\
     m_entries m' = m_entries m /\ m_to m' = r_lead r /\ m_type m' = MsgProp).
Proof. exact follower_forwards_or_drops. Qed.
Print Assumptions C20_follower_forwards_or_drops.

Theorem C20_candidate_drops : forall st r m r' e,
  m_type m = MsgProp -> step_candidate st r m = Ok (r', e) -> e = ErrProposalDropped /\ r' = r.
Proof. exact candidate_drops_proposals. Qed.
Print Assumptions C20_candidate_drops.

