(* C19 Determinism.  The model is a function of (state, input, draws): the election-timeout
   draw is an explicit input, maps are sorted association lists.  What has content is that
   results do not depend on the order in which Go iterates its maps: for the quorum
   functions this is C12_order_independent; for the node, every iteration site of the model
   goes over the sorted key list (trk.Visit, campaign), which the lockstep comparison with
   the implementation checks message by message, in order. *)
From Coq Require Import List NArith.
From RaftV Require Import Base Types Quorum Progress Tracker Storage Log Raft RawNode QuorumProofs RaftMono RaftRouting NodeProps PreVoteProofs LocalProofs FlowProofs LogProofs ConfProofs.
Import ListNotations.
Open Scope N_scope.

Theorem C19_node_step_function : forall n i d x y, node_step n i d = x -> node_step n i d = y -> x = y.
Proof. intros; congruence. Qed.
Print Assumptions C19_node_step_function.

Theorem C19_quorum_order_independent : forall c0 c0' c1 c1' ack,
  Sorting.Permutation.Permutation c0 c0' -> Sorting.Permutation.Permutation c1 c1' ->
  joint_committed c0 c1 ack = joint_committed c0' c1' ack.
Proof. exact joint_committed_perm. Qed.
Print Assumptions C19_quorum_order_independent.

Theorem C19_vote_order_independent : forall c0 c0' c1 c1' votes,
  Sorting.Permutation.Permutation c0 c0' -> Sorting.Permutation.Permutation c1 c1' ->
  joint_vote c0 c1 votes = joint_vote c0' c1' votes.
Proof. exact joint_vote_perm. Qed.
Print Assumptions C19_vote_order_independent.

