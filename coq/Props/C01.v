(* C01 State-machine safety, node-local half: what a node hands out is the consecutive run of
   its log right after the applying cursor and within its commit index (C08), and its commit
   index only moves forward (C07).  Agreement across nodes is checked by the monitors on every
   hand-out and at commit time. *)
From Coq Require Import List NArith.
From RaftV Require LogMatching Safety SafetyEx.
From RaftV Require Import Base Types Quorum Progress Tracker Storage Log Raft RawNode QuorumProofs RaftMono RaftRouting NodeProps PreVoteProofs LocalProofs FlowProofs LogProofs ConfProofs.
Import ListNotations.
Open Scope N_scope.

Theorem C01_handout_is_committed_prefix : forall st l allow es,
  ms_wf st -> u_wf (l_unstable l) -> 1 <= u_offset (l_unstable l) < two64 ->
  l_next_committed_ents st l allow = Ok es ->
  (l_applying_paused l = true -> es = []) /\
  (u_snapshot (l_unstable l) <> None -> es = []) /\
  contig (l_applying l + 1) es /\
  (es <> [] -> l_applying l + nlen es <= l_committed l) /\
  (allow = false -> es <> [] -> l_applying l + nlen es < u_offset (l_unstable l)).
Proof. exact l_next_committed_ents_spec. Qed.
Print Assumptions C01_handout_is_committed_prefix.

Theorem C01_commit_forward_only : forall st r m r' e,
  wf_msg m -> step st r m = Ok (r', e) -> hs_le (hard_state r) (hard_state r').
Proof. exact step_mono. Qed.
Print Assumptions C01_commit_forward_only.



(* ---------- protocol level (Spec/Safety.v) ---------- *)

(* State Machine Safety for every execution of any network of nodes that obey the election and
   replication rules the node model implements (Spec/Safety.v: one vote per term and only for
   an up-to-date candidate; leadership on a majority of votes of that term; the leader appends
   entries of its term; followers accept slices of a leadership's append-only log on a
   (prev index, prev term) match; a leadership commits a position holding an entry of its own
   term once a majority acknowledged a longer matching log in that term; a node hands position
   j to its state machine on the authority of a leadership t <= its term that committed some
   i >= j while its own log agrees with that leadership's log through j; a node may crash at any
   time, keeping term and vote, losing any suffix of its log beyond what it acknowledged, and is
   no candidate any more).  Messages may be delayed, duplicated, reordered or lost; a snapshot
   install is the follower rule with the empty prefix (the ghost logs are never compacted).  [snd p] is the history of everything any node ever
   handed out: any two hand-outs at the same position, at any two moments, by any two nodes,
   carry the same entry.  Unbounded nodes, terms, log lengths and steps; static configuration: voters [vs] and, when it is joint, outgoing voters [vo] (a quorum is a majority of both, C10_joint_quorum_is_both_majorities)
   (membership change is outside this theorem and stays with the monitors of the cluster harness). *)
Theorem C01_state_machine_safety_protocol : forall vs vo p m1 m2 j x y,
  Safety.areach vs vo p -> In (m1, j, x) (snd p) -> In (m2, j, y) (snd p) -> x = y.
Proof. exact Safety.state_machine_safety. Qed.
Print Assumptions C01_state_machine_safety_protocol.

(* never replaced, reordered or dropped: what a node may treat as committed it may still treat
   as committed, with the same value, after any further step of the network, as long as it still
   holds that position (a crash may cost it a not yet acknowledged suffix of its log; what it had
   handed to its state machine stays the committed value by C01_state_machine_safety_protocol) *)
Theorem C01_committed_never_replaced : forall vs vo s s' m j t,
  Safety.SInv vs vo s -> Safety.sstep vs vo s s' -> Safety.can_learn s m j t ->
  ((S j <= length (Safety.nlog s' m))%nat -> Safety.can_learn s' m j t) /\
  (forall x, Safety.cval s j x -> Safety.cval s' j x) /\
  (forall x y, Safety.cval s' j x -> Safety.cval s' j y -> x = y).
Proof.
  intros vs vo s s' m j t I S0 CL. split; [exact (Safety.can_learn_stable vs vo s s' m j t I S0 CL)|]. split.
  - intros x. exact (Safety.cval_stable vs vo s s' j x I S0).
  - intros x y. exact (Safety.cval_unique vs vo s' j x y (Safety.sinv_step vs vo s s' I S0)).
Qed.
Print Assumptions C01_committed_never_replaced.

(* the premises are satisfiable: SafetyEx.safety_nonvacuous is an execution of three voters in
   which two nodes hand out the committed entry *)
Theorem C01_protocol_nonvacuous :
  exists p, Safety.areach SafetyEx.vs3 [] p /\ In (1, 0%nat, (1, 7)) (snd p) /\ In (2, 0%nat, (1, 7)) (snd p).
Proof. exact SafetyEx.safety_nonvacuous. Qed.
Print Assumptions C01_protocol_nonvacuous.
