(* C01 State-machine safety, node-local half: what a node hands out is the consecutive run of
   its log right after the applying cursor and within its commit index (C08), and its commit
   index only moves forward (C07).  Agreement across nodes is checked by the monitors on every
   hand-out and at commit time. *)
From Coq Require Import List NArith.
From RaftV Require Import Base Types Quorum Progress Tracker Storage Log Raft RawNode QuorumProofs RaftMono RaftRouting NodeProps PreVoteProofs LocalProofs FlowProofs LogProofs ConfProofs.
Import ListNotations.
Open Scope N_scope.

Theorem C01_handout_is_committed_prefix : forall st l allow es,
  ms_wf st -> u_wf (l_unstable l) -> 1 <= u_offset (l_unstable l) < two64 ->
  l_next_committed_ents st l allow = Ok es ->
  (l_applying_paused l = true -> es = []) /\
  (u_snapshot (l_unstable l) <> None -> es = []) /\
  contig (l_applying l + 1) es /\
  (es <> [] -> l_applying l + nlen es <= l_committed l) /\
  (allow = false -> es <> [] -> l_applying l + nlen es < u_offset (l_unstable l)).
Proof. exact l_next_committed_ents_spec. Qed.
Print Assumptions C01_handout_is_committed_prefix.

Theorem C01_commit_forward_only : forall st r m r' e,
  wf_msg m -> step st r m = Ok (r', e) -> hs_le (hard_state r) (hard_state r').
Proof. exact step_mono. Qed.
Print Assumptions C01_commit_forward_only.

