(* C03 Log matching, node-local half: every single log keeps consecutive indexes under every
   write (C18).  The cross-node statement is checked by the monitors on all pairs of logs. *)
From Coq Require Import List NArith.
From RaftV Require LogMatching.
From RaftV Require AppendRefine.
From RaftV Require Import Base Types Quorum Progress Tracker Storage Log Raft RawNode QuorumProofs RaftMono RaftRouting NodeProps PreVoteProofs LocalProofs FlowProofs LogProofs ConfProofs.
Import ListNotations.
Open Scope N_scope.

Theorem C03_unstable_consecutive : forall u ents u' e0 rest,
  u_wf u -> ents = e0 :: rest -> contig (e_index e0) ents ->
  (match u_snapshot u with Some s => s_index s < e_index e0 | None => True end) ->
  e_index e0 <= u_offset u + nlen (u_entries u) ->
  u_truncate_and_append u ents = Ok u' ->
  u_wf u' /\ u_snapshot u' = u_snapshot u /\ u_snapshot_in_progress u' = u_snapshot_in_progress u /\
  u_offset u' = N.min (u_offset u) (e_index e0) /\
  u_entries u' = firstn (N.to_nat (e_index e0 - u_offset u)) (u_entries u) ++ ents /\
  u_offset_in_progress u' = N.min (u_offset_in_progress u) (e_index e0).
Proof. exact u_truncate_and_append_wf. Qed.
Print Assumptions C03_unstable_consecutive.

(* the leader stamps new entries with its term at lastIndex+1.. *)
Theorem C03_leader_stamps : forall term es next,
  map e_type (stamp term next es) = map e_type es /\
  map e_data (stamp term next es) = map e_data es /\
  length (stamp term next es) = length es /\
  Forall (fun e => e_term e = term) (stamp term next es).
Proof. exact stamp_preserves. Qed.
Print Assumptions C03_leader_stamps.


(* ---------- protocol level (Spec/LogMatching.v) ---------- *)

(* Log Matching for every reachable state of any network whose logs evolve by the replication
   rules of the node model (one leadership per term starting from the leader's own log; the
   leader appends entries of its term at the end; a follower accepts a slice of a leadership's
   append-only log only on a (prev index, prev term) match, keeps its entries while terms
   match, truncates at the first mismatch, appends the rest; a crash may lose a suffix).
   Delay, duplication, reordering and loss are covered: a follower step may use any slice of
   any leadership's log at any time.  Unbounded nodes, terms, log lengths and steps. *)
Theorem C03_log_matching_protocol : forall g a b i ea eb,
  LogMatching.reach g ->
  nth_error (LogMatching.logs g (LogMatching.KNode a)) i = Some ea ->
  nth_error (LogMatching.logs g (LogMatching.KNode b)) i = Some eb ->
  fst ea = fst eb ->
  firstn (S i) (LogMatching.logs g (LogMatching.KNode a)) = firstn (S i) (LogMatching.logs g (LogMatching.KNode b)).
Proof. exact LogMatching.log_matching. Qed.
Print Assumptions C03_log_matching_protocol.


(* ---------- the node model follows the protocol rule (Proofs/AppendRefine.v) ---------- *)

(* The logical log of a node ([lview]: stable storage below the unstable offset, then the unstable
   tail; or the pending snapshot followed by the tail).  raftLog.maybeAppend (matchTerm,
   findConflict, append / truncateAndAppend, as transcribed in Model/Log.v and compared with
   /repo in lockstep) either refuses and changes nothing, or leaves a well-formed log whose
   logical view is the abstract maybe-append of the old view. *)
Theorem C03_maybe_append_refines : forall st l prev pt ents c l' r,
  AppendRefine.l_wf st l -> contig (prev + 1) ents -> a_base (AppendRefine.lview st l) <= l_committed l ->
  l_maybe_append st l prev pt ents c = Ok (l', r) ->
  AppendRefine.l_wf st l' /\
  match AppendRefine.a_maybe_append (AppendRefine.lview st l) prev pt ents with
  | Some a' => AppendRefine.lview st l' = a' /\ r = Some (prev + nlen ents)
  | None => l' = l /\ r = None
  end.
Proof. exact AppendRefine.l_maybe_append_view. Qed.
Print Assumptions C03_maybe_append_refines.

(* ... and on a log that was never compacted the abstract maybe-append is exactly the
   FollowerAppend rule of Spec/LogMatching.v: it accepts iff the (prev index, prev term) test of
   the rule holds, and the new log is the rule's [fappend] (for any naming [pay] of payloads). *)
Theorem C03_maybe_append_is_protocol_rule : forall (pay : entry -> N) a prev pt ents,
  a_base a = 0 -> a_base_term a = 0 -> contig (prev + 1) ents ->
  match AppendRefine.a_maybe_append a prev pt ents with
  | Some a' =>
      LogMatching.prev_term (AppendRefine.absl pay a) (N.to_nat prev) = Some pt /\
      AppendRefine.absl pay a' = LogMatching.fappend (AppendRefine.absl pay a) (N.to_nat prev) (map (AppendRefine.absent pay) ents) /\
      a_base a' = 0 /\ a_base_term a' = 0
  | None => LogMatching.prev_term (AppendRefine.absl pay a) (N.to_nat prev) <> Some pt
  end.
Proof. exact AppendRefine.a_maybe_append_is_follower_rule. Qed.
Print Assumptions C03_maybe_append_is_protocol_rule.

(* the leader's append (entries stamped lastIndex+1..) extends the logical log at its end: the
   LeaderAppend rule *)
Theorem C03_leader_append_refines : forall st l ents l' e0 rest,
  AppendRefine.l_wf st l -> ents = e0 :: rest -> contig (e_index e0) ents ->
  e_index e0 = a_last (AppendRefine.lview st l) + 1 ->
  l_append st l ents = Ok l' ->
  AppendRefine.l_wf st l' /\
  AppendRefine.lview st l' = mkAbs (a_base (AppendRefine.lview st l)) (a_base_term (AppendRefine.lview st l))
                                   (a_ents (AppendRefine.lview st l) ++ ents).
Proof. exact AppendRefine.l_append_end_view. Qed.
Print Assumptions C03_leader_append_refines.

(* the MsgApp handler of the node (handleAppendEntries): the follower's logical log is left alone
   or changes exactly as the abstract maybe-append of the message's (prev index, prev term,
   entries) *)
Theorem C03_msgapp_handler_refines : forall st r m r',
  AppendRefine.l_wf st (r_log r) -> contig (m_index m + 1) (m_entries m) ->
  a_base (AppendRefine.lview st (r_log r)) <= l_committed (r_log r) ->
  handle_append_entries st r m = Ok r' ->
  AppendRefine.l_wf st (r_log r') /\
  (AppendRefine.lview st (r_log r') = AppendRefine.lview st (r_log r) \/
   AppendRefine.a_maybe_append (AppendRefine.lview st (r_log r)) (m_index m) (m_logterm m) (m_entries m)
     = Some (AppendRefine.lview st (r_log r'))).
Proof. exact AppendRefine.handle_append_entries_view. Qed.
Print Assumptions C03_msgapp_handler_refines.
