(* C03 Log matching, node-local half: every single log keeps consecutive indexes under every
   write (C18).  The cross-node statement is checked by the monitors on all pairs of logs. *)
From Coq Require Import List NArith.
From RaftV Require LogMatching.
From RaftV Require Import Base Types Quorum Progress Tracker Storage Log Raft RawNode QuorumProofs RaftMono RaftRouting NodeProps PreVoteProofs LocalProofs FlowProofs LogProofs ConfProofs.
Import ListNotations.
Open Scope N_scope.

Theorem C03_unstable_consecutive : forall u ents u' e0 rest,
  u_wf u -> ents = e0 :: rest -> contig (e_index e0) ents ->
  (match u_snapshot u with Some s => s_index s < e_index e0 | None => True end) ->
  e_index e0 <= u_offset u + nlen (u_entries u) ->
  u_truncate_and_append u ents = Ok u' ->
  u_wf u' /\ u_snapshot u' = u_snapshot u /\ u_snapshot_in_progress u' = u_snapshot_in_progress u /\
  u_offset u' = N.min (u_offset u) (e_index e0) /\
  u_entries u' = firstn (N.to_nat (e_index e0 - u_offset u)) (u_entries u) ++ ents /\
  u_offset_in_progress u' = N.min (u_offset_in_progress u) (e_index e0).
Proof. exact u_truncate_and_append_wf. Qed.
Print Assumptions C03_unstable_consecutive.

(* the leader stamps new entries with its term at lastIndex+1.. *)
Theorem C03_leader_stamps : forall term es next,
  map e_type (stamp term next es) = map e_type es /\
  map e_data (stamp term next es) = map e_data es /\
  length (stamp term next es) = length es /\
  Forall (fun e => e_term e = term) (stamp term next es).
Proof. exact stamp_preserves. Qed.
Print Assumptions C03_leader_stamps.


(* ---------- protocol level (Spec/LogMatching.v) ---------- *)

(* Log Matching for every reachable state of any network whose logs evolve by the replication
   rules of the node model (one leadership per term starting from the leader's own log; the
   leader appends entries of its term at the end; a follower accepts a slice of a leadership's
   append-only log only on a (prev index, prev term) match, keeps its entries while terms
   match, truncates at the first mismatch, appends the rest; a crash may lose a suffix).
   Delay, duplication, reordering and loss are covered: a follower step may use any slice of
   any leadership's log at any time.  Unbounded nodes, terms, log lengths and steps. *)
Theorem C03_log_matching_protocol : forall g a b i ea eb,
  LogMatching.reach g ->
  nth_error (LogMatching.logs g (LogMatching.KNode a)) i = Some ea ->
  nth_error (LogMatching.logs g (LogMatching.KNode b)) i = Some eb ->
  fst ea = fst eb ->
  firstn (S i) (LogMatching.logs g (LogMatching.KNode a)) = firstn (S i) (LogMatching.logs g (LogMatching.KNode b)).
Proof. exact LogMatching.log_matching. Qed.
Print Assumptions C03_log_matching_protocol.
