(* C08 Apply stream is gap-free, ordered and within commit.  Statement about
   raftLog.nextCommittedEnts for every storage and log state that is well formed (consecutive
   indexes: [ms_wf], [u_wf], established by C18); proofs in Proofs/LogProofs.v. *)
From Coq Require Import List NArith.
From RaftV Require AppendRefine SliceRefine.
From RaftV Require Import Base Types Quorum Progress Tracker Storage Log Raft RawNode QuorumProofs RaftMono RaftRouting NodeProps PreVoteProofs LocalProofs FlowProofs LogProofs ConfProofs.
Import ListNotations.
Open Scope N_scope.

Theorem C08_next_committed_ents : forall st l allow es,
  ms_wf st -> u_wf (l_unstable l) -> 1 <= u_offset (l_unstable l) < two64 ->
  l_next_committed_ents st l allow = Ok es ->
  (l_applying_paused l = true -> es = []) /\
  (u_snapshot (l_unstable l) <> None -> es = []) /\
  contig (l_applying l + 1) es /\
  (es <> [] -> l_applying l + nlen es <= l_committed l) /\
  (allow = false -> es <> [] -> l_applying l + nlen es < u_offset (l_unstable l)).
Proof. exact l_next_committed_ents_spec. Qed.
Print Assumptions C08_next_committed_ents.

(* acceptReady moves the applying cursor to the last index handed out; the size budget may be
   exceeded by a single entry only (C16_slice) *)
Theorem C08_batch_size : forall st l lo hi maxSize es e,
  l_slice st l lo hi maxSize = Ok (es, e) -> fits_or_empty es maxSize.
Proof. exact l_slice_fits. Qed.
Print Assumptions C08_batch_size.



(* what is handed out is the logical log (Proofs/SliceRefine.v): the k-th committed entry of a batch is
   the entry the node's logical log holds at index applying + 1 + k *)
Theorem C08_handout_is_the_logical_log : forall st l allow es,
  AppendRefine.l_wf st l -> l_next_committed_ents st l allow = Ok es ->
  forall k e, nth_error es k = Some e -> a_at (AppendRefine.lview st l) (l_applying l + 1 + N.of_nat k) = Some e.
Proof. exact SliceRefine.l_next_committed_ents_view. Qed.
Print Assumptions C08_handout_is_the_logical_log.
