(* C08 Apply stream is gap-free, ordered and within commit.  Statement about
   raftLog.nextCommittedEnts for every storage and log state that is well formed (consecutive
   indexes: [ms_wf], [u_wf], established by C18); proofs in Proofs/LogProofs.v. *)
From Coq Require Import List NArith.
From RaftV Require AppendRefine SliceRefine.
From RaftV Require Import CursorProofs StreamProofs StreamEx.
From RaftV Require Import Base Types Quorum Progress Tracker Storage Log Raft RawNode QuorumProofs RaftMono RaftRouting NodeProps PreVoteProofs LocalProofs FlowProofs LogProofs ConfProofs.
Import ListNotations.
Open Scope N_scope.

Theorem C08_next_committed_ents : forall st l allow es,
  ms_wf st -> u_wf (l_unstable l) -> 1 <= u_offset (l_unstable l) < two64 ->
  l_next_committed_ents st l allow = Ok es ->
  (l_applying_paused l = true -> es = []) /\
  (u_snapshot (l_unstable l) <> None -> es = []) /\
  contig (l_applying l + 1) es /\
  (es <> [] -> l_applying l + nlen es <= l_committed l) /\
  (allow = false -> es <> [] -> l_applying l + nlen es < u_offset (l_unstable l)).
Proof. exact l_next_committed_ents_spec. Qed.
Print Assumptions C08_next_committed_ents.

(* acceptReady moves the applying cursor to the last index handed out; the size budget may be
   exceeded by a single entry only (C16_slice) *)
Theorem C08_batch_size : forall st l lo hi maxSize es e,
  l_slice st l lo hi maxSize = Ok (es, e) -> fits_or_empty es maxSize.
Proof. exact l_slice_fits. Qed.
Print Assumptions C08_batch_size.



(* what is handed out is the logical log (Proofs/SliceRefine.v): the k-th committed entry of a batch is
   the entry the node's logical log holds at index applying + 1 + k *)
Theorem C08_handout_is_the_logical_log : forall st l allow es,
  AppendRefine.l_wf st l -> l_next_committed_ents st l allow = Ok es ->
  forall k e, nth_error es k = Some e -> a_at (AppendRefine.lview st l) (l_applying l + 1 + N.of_nat k) = Some e.
Proof. exact SliceRefine.l_next_committed_ents_view. Qed.
Print Assumptions C08_handout_is_the_logical_log.


(* ---- the stream over arbitrary histories of one node (Proofs/CursorProofs.v, StreamProofs.v) ---- *)

(* inside raft.go: whatever message is stepped, of any type, term and content, the applying cursor
   stays where it is or moves forward to the index the message acknowledges (MsgStorageApplyResp:
   the last applied entry; MsgStorageAppendResp: the installed snapshot); no tick moves it *)
Theorem C08_step_moves_cursor_only_by_acks : forall st r m r' e,
  step st r m = Ok (r', e) -> cur_step (acks m) r r'.
Proof. exact step_cur. Qed.
Print Assumptions C08_step_moves_cursor_only_by_acks.

Theorem C08_tick_keeps_cursor : forall st r r', tick st r = Ok r' -> no_move r r'.
Proof. exact tick_cur. Qed.
Print Assumptions C08_tick_keeps_cursor.

(* every input of the RawNode API: a Ready hands out the consecutive entries right after the cursor
   and moves the cursor to the last of them; Step moves it only to the acknowledgement it carries,
   Advance only to one queued by the last Ready; nothing else moves it *)
Theorem C08_cursor_discipline : forall n i d n' out rn,
  n_rn n = Some rn -> rcur_ok rn -> same_incarnation i = true ->
  (i = IReady -> ready_pre (n_st n) rn) ->
  node_step n i d = Ok (n', out) ->
  exists rn', n_rn n' = Some rn' /\ rcur_ok rn' /\ cursor_rel i out rn rn'.
Proof. exact node_step_cursor. Qed.
Print Assumptions C08_cursor_discipline.

(* what the synchronous interface queues for Advance: the acknowledgement of the Ready's snapshot
   and of its committed entries *)
Theorem C08_advance_acks : forall st rn rd rn',
  inv_rn rn -> accept_ready st rn rd = Ok rn' -> rn_async rn = false ->
  forall i, pend rn' i ->
    (exists s, rd_snapshot rd = Some s /\ i = s_index s) \/
    (exists e, last_opt (rd_committed rd) = Some e /\ i = e_index e).
Proof. exact accept_ready_pend. Qed.
Print Assumptions C08_advance_acks.

(* exactly-once and ordered, for every history of one incarnation: an entry handed out later has a
   larger index than every entry handed out before *)
Theorem C08_apply_stream_exactly_once : forall n tr1 x tr2 n',
  nrun n (tr1 ++ x :: tr2) n' -> running_ok n ->
  forall y, In y tr2 -> forall e1 e2, In e1 (batch_of x) -> In e2 (batch_of y) ->
  e_index e1 < e_index e2.
Proof. exact apply_stream_exactly_once. Qed.
Print Assumptions C08_apply_stream_exactly_once.

(* gap-free: the next batch starts right after the previous one unless an acknowledgement above the
   cursor (an installed snapshot) was stepped in between *)
Theorem C08_apply_stream_gap_free : forall n dx rdx mid ny dy rdy rest n',
  nrun n ((n, IReady, dx, OReady rdx) :: mid ++ (ny, IReady, dy, OReady rdy) :: rest) n' ->
  running_ok n -> Forall quiet mid ->
  contig (ncursor n + nlen (rd_committed rdx) + 1) (rd_committed rdy).
Proof. exact apply_stream_gap_free. Qed.
Print Assumptions C08_apply_stream_gap_free.

(* a new incarnation starts at the configured applied index (or the storage's snapshot) *)
Theorem C08_restart_cursor : forall st c d rn,
  new_rawnode st c d = Ok rn ->
  rcur_ok rn /\ ncur rn = N.max (ms_first_index st - 1) (cfg_applied c).
Proof. exact new_rawnode_cursor. Qed.
Print Assumptions C08_restart_cursor.

(* the hypotheses are satisfiable: a concrete history with two non-empty batches *)
Theorem C08_stream_nonvacuous :
  exists n tr n', running_ok n /\ nrun n tr n' /\ batches_of (Ok (tr, n')) = [[2]; [3]].
Proof. exact apply_stream_nonvacuous. Qed.
Print Assumptions C08_stream_nonvacuous.
