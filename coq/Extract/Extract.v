(* Extraction of the executable model for the correspondence driver.
   ExtrOcamlBasic only: its Extract Inductive directives for bool, option, unit, prod,
   list, sumbool, sumor.  No Extract Constant.  N / positive / nat / Z stay inductive. *)
From Coq Require Extraction.
From Coq Require Import ExtrOcamlBasic.
From RaftV Require Import Base Quorum Types Progress Tracker Storage Log Raft RawNode.
Extraction "model.ml" Base.sub64 Quorum.majority_committed Quorum.joint_committed
  Quorum.majority_vote Quorum.joint_vote Quorum.joint_ids
  Types.entry_size Storage.limit_size Progress.infl_window Progress.infl_full Progress.new_inflights Progress.infl_add Progress.infl_free_le Progress.infl_count
  Tracker.make_tracker Tracker.t_with_config_progress Tracker.changer_simple Tracker.changer_enter_joint Tracker.changer_leave_joint Tracker.cc_restore
  Storage.new_memstorage Storage.ms_append Storage.ms_compact Storage.ms_create_snapshot Storage.ms_apply_snapshot Storage.ms_entries Storage.ms_term
  Storage.ms_get_snapshot Storage.ms_first_index Storage.ms_last_index
  Raft.decode_cc
  RawNode.node_step RawNode.init_node.
