(* Extraction of the executable model for the correspondence driver.
   ExtrOcamlBasic only: its Extract Inductive directives for bool, option, unit, prod,
   list, sumbool, sumor.  No Extract Constant.  N / positive / nat / Z stay inductive. *)
From Coq Require Extraction.
From Coq Require Import ExtrOcamlBasic.
From RaftV Require Import Base Quorum Types Progress Tracker Storage Log Raft RawNode.
Extraction "model.ml" Base.sub64 Quorum.majority_committed Quorum.joint_committed
  Quorum.majority_vote Quorum.joint_vote Quorum.joint_ids
  Types.entry_size Storage.limit_size Progress.infl_window Progress.infl_full RawNode.node_step RawNode.init_node.
