(* Extraction of the executable model for the correspondence driver.
   ExtrOcamlBasic only: its Extract Inductive directives for bool, option, unit, prod,
   list, sumbool, sumor.  No Extract Constant.  N / positive / nat / Z stay inductive. *)
From Coq Require Extraction.
From Coq Require Import ExtrOcamlBasic.
From RaftV Require Import Base Quorum.
Extraction "model.ml" Base.sub64 Quorum.majority_committed Quorum.joint_committed
  Quorum.majority_vote Quorum.joint_vote Quorum.joint_ids.
