(* Tracker.v: executable model of tracker/tracker.go (Config, ProgressTracker) and of
   confchange/confchange.go, confchange/restore.go, raftpb/confchange.go (EnterJoint /
   LeaveJoint on ConfChangeV2).
   Go maps are sorted duplicate-free association lists; a nil map and an empty map are the
   same value here (every configuration reachable from MakeProgressTracker keeps "nil iff
   empty" for Voters[1], Learners and LearnersNext, which is what checkInvariants tests). *)
From Coq Require Import List NArith Bool.
From RaftV Require Import Base Types Quorum Progress.
Import ListNotations.
Open Scope N_scope.

Record config := mkConfig {
  c_voters : list N;         (* Voters[0], incoming *)
  c_outgoing : list N;       (* Voters[1] *)
  c_auto_leave : bool;
  c_learners : list N;
  c_learners_next : list N;
}.

Definition empty_config : config := mkConfig [] [] false [] [].

Definition progress_map := list (N * progress).

Record tracker := mkTracker {
  t_config : config;
  t_progress : progress_map;
  t_votes : list (N * bool);
  t_max_inflight : N;
  t_max_inflight_bytes : N;
}.

Definition make_tracker (maxInflight maxBytes : N) : tracker :=
  mkTracker empty_config [] [] maxInflight maxBytes.

Definition t_with_config_progress (t : tracker) (c : config) (p : progress_map) : tracker :=
  mkTracker c p (t_votes t) (t_max_inflight t) (t_max_inflight_bytes t).
Definition t_with_progress (t : tracker) (p : progress_map) : tracker :=
  mkTracker (t_config t) p (t_votes t) (t_max_inflight t) (t_max_inflight_bytes t).
Definition t_with_votes (t : tracker) (v : list (N * bool)) : tracker :=
  mkTracker (t_config t) (t_progress t) v (t_max_inflight t) (t_max_inflight_bytes t).

Definition conf_state (c : config) : confstate :=
  mkConfState (c_voters c) (c_learners c) (c_outgoing c) (c_learners_next c) (c_auto_leave c).

Definition is_singleton (c : config) : bool :=
  N.eqb (nlen (c_voters c)) 1 && N.eqb (nlen (c_outgoing c)) 0.

(* matchAckIndexer *)
Definition match_acks (p : progress_map) : list (N * N) :=
  map (fun kv => (fst kv, pr_match (snd kv))) p.

Definition t_committed (t : tracker) : N :=
  joint_committed (c_voters (t_config t)) (c_outgoing (t_config t)) (match_acks (t_progress t)).

Definition voter_ids (c : config) : list N := joint_ids (c_voters c) (c_outgoing c).

(* QuorumActive: votes[id] = RecentActive for non-learner progress entries *)
Definition quorum_active (t : tracker) : bool :=
  let votes := map (fun kv => (fst kv, pr_recent_active (snd kv)))
                   (filter (fun kv => negb (pr_is_learner (snd kv))) (t_progress t)) in
  vote_result_eqb (joint_vote (c_voters (t_config t)) (c_outgoing (t_config t)) votes) VoteWon.

Definition reset_votes (t : tracker) : tracker := t_with_votes t [].

Definition record_vote (t : tracker) (id : N) (v : bool) : tracker :=
  match alookup (t_votes t) id with
  | Some _ => t
  | None => t_with_votes t (ainsert (t_votes t) id v)
  end.

(* TallyVotes: (granted, rejected, result) *)
Definition tally_votes (t : tracker) : N * N * vote_result :=
  let voters := filter (fun kv => negb (pr_is_learner (snd kv))) (t_progress t) in
  let g := nlen (filter (fun kv => match alookup (t_votes t) (fst kv) with Some true => true | _ => false end) voters) in
  let r := nlen (filter (fun kv => match alookup (t_votes t) (fst kv) with Some false => true | _ => false end) voters) in
  (g, r, joint_vote (c_voters (t_config t)) (c_outgoing (t_config t)) (t_votes t)).

(* ---------- confchange ---------- *)

Inductive cc_type := CCAddNode | CCRemoveNode | CCUpdateNode | CCAddLearnerNode | CCUnknown.
Record cc_single := mkCCS { ccs_type : cc_type; ccs_node : N }.

Inductive cc_transition := TransAuto | TransJointImplicit | TransJointExplicit.
Record confchange_v2 := mkCCV2 { cc_transition_ : cc_transition; cc_changes : list cc_single }.

Inductive cc_err :=
| CEAlreadyJoint | CEZeroVoterJoint | CENotJoint | CESimpleInJoint | CEUnexpectedType
| CERemovedAllVoters | CEMoreThanOne | CEInvariant.

Definition joint (c : config) : bool := negb (N.eqb (nlen (c_outgoing c)) 0).

Definition has_progress (p : progress_map) (id : N) : bool := amem p id.

(* checkInvariants *)
Definition check_invariants (c : config) (p : progress_map) : bool :=
  forallb (has_progress p) (voter_ids c) &&
  forallb (has_progress p) (c_learners c) &&
  forallb (has_progress p) (c_learners_next c) &&
  forallb (fun id => smem (c_outgoing c) id &&
                     match alookup p id with Some pr => negb (pr_is_learner pr) | None => false end)
          (c_learners_next c) &&
  forallb (fun id => negb (smem (c_outgoing c) id) && negb (smem (c_voters c) id) &&
                     match alookup p id with Some pr => pr_is_learner pr | None => false end)
          (c_learners c) &&
  (joint c || (N.eqb (nlen (c_learners_next c)) 0 && negb (c_auto_leave c))).

Definition cfg_with_voters (c : config) (v : list N) : config :=
  mkConfig v (c_outgoing c) (c_auto_leave c) (c_learners c) (c_learners_next c).
Definition cfg_with_outgoing (c : config) (v : list N) : config :=
  mkConfig (c_voters c) v (c_auto_leave c) (c_learners c) (c_learners_next c).
Definition cfg_with_learners (c : config) (v : list N) : config :=
  mkConfig (c_voters c) (c_outgoing c) (c_auto_leave c) v (c_learners_next c).
Definition cfg_with_learners_next (c : config) (v : list N) : config :=
  mkConfig (c_voters c) (c_outgoing c) (c_auto_leave c) (c_learners c) v.
Definition cfg_with_auto_leave (c : config) (b : bool) : config :=
  mkConfig (c_voters c) (c_outgoing c) b (c_learners c) (c_learners_next c).

(* Config.Clone drops AutoLeave (the Go struct literal does not copy it) *)
Definition cfg_clone (c : config) : config :=
  mkConfig (c_voters c) (c_outgoing c) false (c_learners c) (c_learners_next c).

Definition init_progress (maxInflight maxBytes lastIndex : N) (c : config) (p : progress_map)
           (id : N) (isLearner : bool) : config * progress_map :=
  let c' := if isLearner then cfg_with_learners c (sinsert (c_learners c) id)
            else cfg_with_voters c (sinsert (c_voters c) id) in
  let pr := mkPr 0 (N.max lastIndex 1) 0 StateProbe 0 true false
                 (new_inflights maxInflight maxBytes) isLearner in
  (c', ainsert p id pr).

Definition cc_remove (c : config) (p : progress_map) (id : N) : config * progress_map :=
  if negb (has_progress p id) then (c, p) else
  let c' := mkConfig (sremove (c_voters c) id) (c_outgoing c) (c_auto_leave c)
                     (sremove (c_learners c) id) (sremove (c_learners_next c) id) in
  if smem (c_outgoing c) id then (c', p) else (c', aremove p id).

Definition make_voter (mi mb li : N) (c : config) (p : progress_map) (id : N) : config * progress_map :=
  match alookup p id with
  | None => init_progress mi mb li c p id false
  | Some pr =>
      let c' := mkConfig (sinsert (c_voters c) id) (c_outgoing c) (c_auto_leave c)
                         (sremove (c_learners c) id) (sremove (c_learners_next c) id) in
      (c', ainsert p id (pr_with_is_learner pr false))
  end.

Definition make_learner (mi mb li : N) (c : config) (p : progress_map) (id : N) : config * progress_map :=
  match alookup p id with
  | None => init_progress mi mb li c p id true
  | Some pr =>
      if pr_is_learner pr then (c, p) else
      let '(c1, p1) := cc_remove c p id in
      if smem (c_outgoing c1) id then
        (cfg_with_learners_next c1 (sinsert (c_learners_next c1) id), ainsert p1 id pr)
      else
        (cfg_with_learners c1 (sinsert (c_learners c1) id), ainsert p1 id (pr_with_is_learner pr true))
  end.

Fixpoint cc_apply (mi mb li : N) (c : config) (p : progress_map) (ccs : list cc_single)
  : (config * progress_map) + cc_err :=
  match ccs with
  | [] => if N.eqb (nlen (c_voters c)) 0 then inr CERemovedAllVoters else inl (c, p)
  | cc :: rest =>
      if N.eqb (ccs_node cc) 0 then cc_apply mi mb li c p rest else
      match ccs_type cc with
      | CCAddNode => let '(c', p') := make_voter mi mb li c p (ccs_node cc) in cc_apply mi mb li c' p' rest
      | CCAddLearnerNode => let '(c', p') := make_learner mi mb li c p (ccs_node cc) in cc_apply mi mb li c' p' rest
      | CCRemoveNode => let '(c', p') := cc_remove c p (ccs_node cc) in cc_apply mi mb li c' p' rest
      | CCUpdateNode => cc_apply mi mb li c p rest
      | CCUnknown => inr CEUnexpectedType
      end
  end.

Definition symdiff (l r : list N) : N :=
  nlen (filter (fun id => negb (smem r id)) l) + nlen (filter (fun id => negb (smem l id)) r).

Definition check_and_return (c : config) (p : progress_map) : (config * progress_map) + cc_err :=
  if check_invariants c p then inl (c, p) else inr CEInvariant.

(* the Changer carries the tracker (config, progress, inflight limits) and LastIndex *)
Definition changer_enter_joint (t : tracker) (lastIndex : N) (autoLeave : bool) (ccs : list cc_single)
  : (config * progress_map) + cc_err :=
  match check_and_return (cfg_clone (t_config t)) (t_progress t) with
  | inr e => inr e
  | inl (c, p) =>
      if joint c then inr CEAlreadyJoint else
      if N.eqb (nlen (c_voters c)) 0 then inr CEZeroVoterJoint else
      let c1 := cfg_with_outgoing c (c_voters c) in
      match cc_apply (t_max_inflight t) (t_max_inflight_bytes t) lastIndex c1 p ccs with
      | inr e => inr e
      | inl (c2, p2) => check_and_return (cfg_with_auto_leave c2 autoLeave) p2
      end
  end.

Definition changer_leave_joint (t : tracker) : (config * progress_map) + cc_err :=
  match check_and_return (cfg_clone (t_config t)) (t_progress t) with
  | inr e => inr e
  | inl (c, p) =>
      if negb (joint c) then inr CENotJoint else
      (* LearnersNext become learners *)
      let learners := fold_left sinsert (c_learners_next c) (c_learners c) in
      let p1 := fold_left (fun p id => match alookup p id with
                                       | Some pr => ainsert p id (pr_with_is_learner pr true)
                                       | None => p end) (c_learners_next c) p in
      let c1 := mkConfig (c_voters c) (c_outgoing c) (c_auto_leave c) learners [] in
      (* drop the progress of outgoing voters that are neither voters nor learners *)
      let p2 := fold_left (fun p id => if negb (smem (c_voters c1) id) && negb (smem (c_learners c1) id)
                                       then aremove p id else p) (c_outgoing c1) p1 in
      check_and_return (mkConfig (c_voters c1) [] false (c_learners c1) []) p2
  end.

Definition changer_simple (t : tracker) (lastIndex : N) (ccs : list cc_single)
  : (config * progress_map) + cc_err :=
  match check_and_return (cfg_clone (t_config t)) (t_progress t) with
  | inr e => inr e
  | inl (c, p) =>
      if joint c then inr CESimpleInJoint else
      match cc_apply (t_max_inflight t) (t_max_inflight_bytes t) lastIndex c p ccs with
      | inr e => inr e
      | inl (c2, p2) =>
          if 1 <? symdiff (c_voters (t_config t)) (c_voters c2) then inr CEMoreThanOne
          else check_and_return c2 p2
      end
  end.

(* raftpb: ConfChangeV2.EnterJoint / LeaveJoint *)
Definition ccv2_enter_joint (cc : confchange_v2) : option bool :=
  match cc_transition_ cc, (1 <? nlen (cc_changes cc)) with
  | TransAuto, false => None
  | TransAuto, true => Some true
  | TransJointImplicit, _ => Some true
  | TransJointExplicit, _ => Some false
  end.

Definition ccv2_leave_joint (cc : confchange_v2) : bool :=
  match cc_transition_ cc with
  | TransAuto => N.eqb (nlen (cc_changes cc)) 0
  | _ => false
  end.

(* the dispatch of raft.applyConfChange *)
Definition apply_conf_change (t : tracker) (lastIndex : N) (cc : confchange_v2)
  : (config * progress_map) + cc_err :=
  if ccv2_leave_joint cc then changer_leave_joint t
  else match ccv2_enter_joint cc with
       | Some autoLeave => changer_enter_joint t lastIndex autoLeave (cc_changes cc)
       | None => changer_simple t lastIndex (cc_changes cc)
       end.

(* confchange.Restore: toConfChangeSingle + chain *)
Definition to_cc_single (cs : confstate) : list cc_single * list cc_single :=
  (map (mkCCS CCAddNode) (cs_voters_outgoing cs),
   map (mkCCS CCRemoveNode) (cs_voters_outgoing cs) ++
   map (mkCCS CCAddNode) (cs_voters cs) ++
   map (mkCCS CCAddLearnerNode) (cs_learners cs) ++
   map (mkCCS CCAddLearnerNode) (cs_learners_next cs)).

Fixpoint chain_simple (t : tracker) (lastIndex : N) (ccs : list cc_single) : tracker + cc_err :=
  match ccs with
  | [] => inl t
  | cc :: rest =>
      match changer_simple t lastIndex [cc] with
      | inr e => inr e
      | inl (c, p) => chain_simple (t_with_config_progress t c p) lastIndex rest
      end
  end.

Definition cc_restore (t : tracker) (lastIndex : N) (cs : confstate) : (config * progress_map) + cc_err :=
  let '(outgoing, incoming) := to_cc_single cs in
  match outgoing with
  | [] =>
      match chain_simple t lastIndex incoming with
      | inr e => inr e
      | inl t' => inl (t_config t', t_progress t')
      end
  | _ =>
      match chain_simple t lastIndex outgoing with
      | inr e => inr e
      | inl t' => changer_enter_joint t' lastIndex (cs_auto_leave cs) incoming
      end
  end.

Definition sorted_ids (l : list N) : list N := sunion [] l.

(* ConfState.Equivalent (after sorting) *)
Definition confstate_equiv (a b : confstate) : bool :=
  list_eqb N.eqb (sortN (cs_voters a)) (sortN (cs_voters b)) &&
  list_eqb N.eqb (sortN (cs_learners a)) (sortN (cs_learners b)) &&
  list_eqb N.eqb (sortN (cs_voters_outgoing a)) (sortN (cs_voters_outgoing b)) &&
  list_eqb N.eqb (sortN (cs_learners_next a)) (sortN (cs_learners_next b)) &&
  Bool.eqb (cs_auto_leave a) (cs_auto_leave b).
