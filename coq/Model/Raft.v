(* Raft.v: executable model of raft.go (and read_only.go): one Gallina function per Go
   function.  State is passed explicitly; panics are [Panic site]; errors returned by Step
   are the [err] component.  [st] is the node's MemoryStorage as it is at the call. *)
From Coq Require Import List NArith Bool.
From RaftV Require Import Base Types Quorum Progress Tracker Storage Log.
Import ListNotations.
Open Scope N_scope.

(* ---------- read_only.go ---------- *)

Inductive readonly_option := ReadOnlySafe | ReadOnlyLeaseBased.

Record readonly := mkRO {
  ro_option : readonly_option;
  ro_acks : list (N * N);
  ro_unconfirmed : list (message * N);   (* request, commit index at queueing *)
  ro_confirmed : N;
}.

Definition new_readonly (o : readonly_option) : readonly := mkRO o [] [] 0.

Fixpoint le_encode (n : nat) (x : N) : bytes :=
  match n with O => [] | S n' => (x mod 256) :: le_encode n' (x / 256) end.
Definition le_encode64 (x : N) : bytes := le_encode 8 x.
Fixpoint le_decode (l : bytes) : N :=
  match l with [] => 0 | b :: t => b + 256 * le_decode t end.
(* binary.LittleEndian.Uint64(ctx): needs 8 bytes *)
Definition le_decode64 (l : bytes) : option N :=
  if nlen l <? 8 then None else Some (le_decode (firstn 8 l)).

Definition ro_add_request (ro : readonly) (commitIndex : N) (req : message) : readonly :=
  mkRO (ro_option ro) (ro_acks ro) (ro_unconfirmed ro ++ [(req, commitIndex)]) (ro_confirmed ro).

Definition ro_recv_ack (ro : readonly) (from : N) (ctx : bytes) : res readonly :=
  match ctx with
  | [] => Ok ro
  | _ => match le_decode64 ctx with
         | None => Panic PReadOnlyCtx
         | Some v =>
             let old := match alookup (ro_acks ro) from with Some a => a | None => 0 end in
             Ok (mkRO (ro_option ro) (ainsert (ro_acks ro) from (N.max old v))
                      (ro_unconfirmed ro) (ro_confirmed ro))
         end
  end.

Definition ro_maybe_advance (ro : readonly) (c0 c1 : list N) : res (readonly * list (message * N)) :=
  let nc := joint_committed c0 c1 (ro_acks ro) in
  if nc <=? ro_confirmed ro then Ok (ro, []) else
  let k := nc - ro_confirmed ro in
  if nlen (ro_unconfirmed ro) <? k then Panic PReadOnlySlice else
  Ok (mkRO (ro_option ro) (ro_acks ro) (ndrop k (ro_unconfirmed ro)) nc, ntake k (ro_unconfirmed ro)).

Definition ro_heartbeat_ctx (ro : readonly) : bytes :=
  match ro_unconfirmed ro with
  | [] => []
  | _ => le_encode64 (ro_confirmed ro + nlen (ro_unconfirmed ro))
  end.

(* ---------- raft ---------- *)

Record raft := mkRaft {
  r_id : N;
  r_term : N;
  r_vote : N;
  r_read_states : list readstate;
  r_log : raftlog;
  r_max_msg_size : N;
  r_max_uncommitted_size : N;
  r_trk : tracker;
  r_state : state_type;
  r_is_learner : bool;
  r_msgs : list message;
  r_msgs_after_append : list message;
  r_lead : N;
  r_lead_transferee : N;
  r_pending_conf_index : N;
  r_disable_cc_validation : bool;
  r_uncommitted_size : N;
  r_read_only : readonly;
  r_election_elapsed : N;
  r_heartbeat_elapsed : N;
  r_check_quorum : bool;
  r_pre_vote : bool;
  r_heartbeat_timeout : N;
  r_election_timeout : N;
  r_randomized_election_timeout : N;
  r_disable_proposal_forwarding : bool;
  r_step_down_on_removal : bool;
  r_pending_read_index : list message;
  r_draws : list N
}.

Definition set_r_id (r : raft) x : raft := mkRaft x (r_term r) (r_vote r) (r_read_states r) (r_log r) (r_max_msg_size r) (r_max_uncommitted_size r) (r_trk r) (r_state r) (r_is_learner r) (r_msgs r) (r_msgs_after_append r) (r_lead r) (r_lead_transferee r) (r_pending_conf_index r) (r_disable_cc_validation r) (r_uncommitted_size r) (r_read_only r) (r_election_elapsed r) (r_heartbeat_elapsed r) (r_check_quorum r) (r_pre_vote r) (r_heartbeat_timeout r) (r_election_timeout r) (r_randomized_election_timeout r) (r_disable_proposal_forwarding r) (r_step_down_on_removal r) (r_pending_read_index r) (r_draws r).
Definition set_r_term (r : raft) x : raft := mkRaft (r_id r) x (r_vote r) (r_read_states r) (r_log r) (r_max_msg_size r) (r_max_uncommitted_size r) (r_trk r) (r_state r) (r_is_learner r) (r_msgs r) (r_msgs_after_append r) (r_lead r) (r_lead_transferee r) (r_pending_conf_index r) (r_disable_cc_validation r) (r_uncommitted_size r) (r_read_only r) (r_election_elapsed r) (r_heartbeat_elapsed r) (r_check_quorum r) (r_pre_vote r) (r_heartbeat_timeout r) (r_election_timeout r) (r_randomized_election_timeout r) (r_disable_proposal_forwarding r) (r_step_down_on_removal r) (r_pending_read_index r) (r_draws r).
Definition set_r_vote (r : raft) x : raft := mkRaft (r_id r) (r_term r) x (r_read_states r) (r_log r) (r_max_msg_size r) (r_max_uncommitted_size r) (r_trk r) (r_state r) (r_is_learner r) (r_msgs r) (r_msgs_after_append r) (r_lead r) (r_lead_transferee r) (r_pending_conf_index r) (r_disable_cc_validation r) (r_uncommitted_size r) (r_read_only r) (r_election_elapsed r) (r_heartbeat_elapsed r) (r_check_quorum r) (r_pre_vote r) (r_heartbeat_timeout r) (r_election_timeout r) (r_randomized_election_timeout r) (r_disable_proposal_forwarding r) (r_step_down_on_removal r) (r_pending_read_index r) (r_draws r).
Definition set_r_read_states (r : raft) x : raft := mkRaft (r_id r) (r_term r) (r_vote r) x (r_log r) (r_max_msg_size r) (r_max_uncommitted_size r) (r_trk r) (r_state r) (r_is_learner r) (r_msgs r) (r_msgs_after_append r) (r_lead r) (r_lead_transferee r) (r_pending_conf_index r) (r_disable_cc_validation r) (r_uncommitted_size r) (r_read_only r) (r_election_elapsed r) (r_heartbeat_elapsed r) (r_check_quorum r) (r_pre_vote r) (r_heartbeat_timeout r) (r_election_timeout r) (r_randomized_election_timeout r) (r_disable_proposal_forwarding r) (r_step_down_on_removal r) (r_pending_read_index r) (r_draws r).
Definition set_r_log (r : raft) x : raft := mkRaft (r_id r) (r_term r) (r_vote r) (r_read_states r) x (r_max_msg_size r) (r_max_uncommitted_size r) (r_trk r) (r_state r) (r_is_learner r) (r_msgs r) (r_msgs_after_append r) (r_lead r) (r_lead_transferee r) (r_pending_conf_index r) (r_disable_cc_validation r) (r_uncommitted_size r) (r_read_only r) (r_election_elapsed r) (r_heartbeat_elapsed r) (r_check_quorum r) (r_pre_vote r) (r_heartbeat_timeout r) (r_election_timeout r) (r_randomized_election_timeout r) (r_disable_proposal_forwarding r) (r_step_down_on_removal r) (r_pending_read_index r) (r_draws r).
Definition set_r_max_msg_size (r : raft) x : raft := mkRaft (r_id r) (r_term r) (r_vote r) (r_read_states r) (r_log r) x (r_max_uncommitted_size r) (r_trk r) (r_state r) (r_is_learner r) (r_msgs r) (r_msgs_after_append r) (r_lead r) (r_lead_transferee r) (r_pending_conf_index r) (r_disable_cc_validation r) (r_uncommitted_size r) (r_read_only r) (r_election_elapsed r) (r_heartbeat_elapsed r) (r_check_quorum r) (r_pre_vote r) (r_heartbeat_timeout r) (r_election_timeout r) (r_randomized_election_timeout r) (r_disable_proposal_forwarding r) (r_step_down_on_removal r) (r_pending_read_index r) (r_draws r).
Definition set_r_max_uncommitted_size (r : raft) x : raft := mkRaft (r_id r) (r_term r) (r_vote r) (r_read_states r) (r_log r) (r_max_msg_size r) x (r_trk r) (r_state r) (r_is_learner r) (r_msgs r) (r_msgs_after_append r) (r_lead r) (r_lead_transferee r) (r_pending_conf_index r) (r_disable_cc_validation r) (r_uncommitted_size r) (r_read_only r) (r_election_elapsed r) (r_heartbeat_elapsed r) (r_check_quorum r) (r_pre_vote r) (r_heartbeat_timeout r) (r_election_timeout r) (r_randomized_election_timeout r) (r_disable_proposal_forwarding r) (r_step_down_on_removal r) (r_pending_read_index r) (r_draws r).
Definition set_r_trk (r : raft) x : raft := mkRaft (r_id r) (r_term r) (r_vote r) (r_read_states r) (r_log r) (r_max_msg_size r) (r_max_uncommitted_size r) x (r_state r) (r_is_learner r) (r_msgs r) (r_msgs_after_append r) (r_lead r) (r_lead_transferee r) (r_pending_conf_index r) (r_disable_cc_validation r) (r_uncommitted_size r) (r_read_only r) (r_election_elapsed r) (r_heartbeat_elapsed r) (r_check_quorum r) (r_pre_vote r) (r_heartbeat_timeout r) (r_election_timeout r) (r_randomized_election_timeout r) (r_disable_proposal_forwarding r) (r_step_down_on_removal r) (r_pending_read_index r) (r_draws r).
Definition set_r_state (r : raft) x : raft := mkRaft (r_id r) (r_term r) (r_vote r) (r_read_states r) (r_log r) (r_max_msg_size r) (r_max_uncommitted_size r) (r_trk r) x (r_is_learner r) (r_msgs r) (r_msgs_after_append r) (r_lead r) (r_lead_transferee r) (r_pending_conf_index r) (r_disable_cc_validation r) (r_uncommitted_size r) (r_read_only r) (r_election_elapsed r) (r_heartbeat_elapsed r) (r_check_quorum r) (r_pre_vote r) (r_heartbeat_timeout r) (r_election_timeout r) (r_randomized_election_timeout r) (r_disable_proposal_forwarding r) (r_step_down_on_removal r) (r_pending_read_index r) (r_draws r).
Definition set_r_is_learner (r : raft) x : raft := mkRaft (r_id r) (r_term r) (r_vote r) (r_read_states r) (r_log r) (r_max_msg_size r) (r_max_uncommitted_size r) (r_trk r) (r_state r) x (r_msgs r) (r_msgs_after_append r) (r_lead r) (r_lead_transferee r) (r_pending_conf_index r) (r_disable_cc_validation r) (r_uncommitted_size r) (r_read_only r) (r_election_elapsed r) (r_heartbeat_elapsed r) (r_check_quorum r) (r_pre_vote r) (r_heartbeat_timeout r) (r_election_timeout r) (r_randomized_election_timeout r) (r_disable_proposal_forwarding r) (r_step_down_on_removal r) (r_pending_read_index r) (r_draws r).
Definition set_r_msgs (r : raft) x : raft := mkRaft (r_id r) (r_term r) (r_vote r) (r_read_states r) (r_log r) (r_max_msg_size r) (r_max_uncommitted_size r) (r_trk r) (r_state r) (r_is_learner r) x (r_msgs_after_append r) (r_lead r) (r_lead_transferee r) (r_pending_conf_index r) (r_disable_cc_validation r) (r_uncommitted_size r) (r_read_only r) (r_election_elapsed r) (r_heartbeat_elapsed r) (r_check_quorum r) (r_pre_vote r) (r_heartbeat_timeout r) (r_election_timeout r) (r_randomized_election_timeout r) (r_disable_proposal_forwarding r) (r_step_down_on_removal r) (r_pending_read_index r) (r_draws r).
Definition set_r_msgs_after_append (r : raft) x : raft := mkRaft (r_id r) (r_term r) (r_vote r) (r_read_states r) (r_log r) (r_max_msg_size r) (r_max_uncommitted_size r) (r_trk r) (r_state r) (r_is_learner r) (r_msgs r) x (r_lead r) (r_lead_transferee r) (r_pending_conf_index r) (r_disable_cc_validation r) (r_uncommitted_size r) (r_read_only r) (r_election_elapsed r) (r_heartbeat_elapsed r) (r_check_quorum r) (r_pre_vote r) (r_heartbeat_timeout r) (r_election_timeout r) (r_randomized_election_timeout r) (r_disable_proposal_forwarding r) (r_step_down_on_removal r) (r_pending_read_index r) (r_draws r).
Definition set_r_lead (r : raft) x : raft := mkRaft (r_id r) (r_term r) (r_vote r) (r_read_states r) (r_log r) (r_max_msg_size r) (r_max_uncommitted_size r) (r_trk r) (r_state r) (r_is_learner r) (r_msgs r) (r_msgs_after_append r) x (r_lead_transferee r) (r_pending_conf_index r) (r_disable_cc_validation r) (r_uncommitted_size r) (r_read_only r) (r_election_elapsed r) (r_heartbeat_elapsed r) (r_check_quorum r) (r_pre_vote r) (r_heartbeat_timeout r) (r_election_timeout r) (r_randomized_election_timeout r) (r_disable_proposal_forwarding r) (r_step_down_on_removal r) (r_pending_read_index r) (r_draws r).
Definition set_r_lead_transferee (r : raft) x : raft := mkRaft (r_id r) (r_term r) (r_vote r) (r_read_states r) (r_log r) (r_max_msg_size r) (r_max_uncommitted_size r) (r_trk r) (r_state r) (r_is_learner r) (r_msgs r) (r_msgs_after_append r) (r_lead r) x (r_pending_conf_index r) (r_disable_cc_validation r) (r_uncommitted_size r) (r_read_only r) (r_election_elapsed r) (r_heartbeat_elapsed r) (r_check_quorum r) (r_pre_vote r) (r_heartbeat_timeout r) (r_election_timeout r) (r_randomized_election_timeout r) (r_disable_proposal_forwarding r) (r_step_down_on_removal r) (r_pending_read_index r) (r_draws r).
Definition set_r_pending_conf_index (r : raft) x : raft := mkRaft (r_id r) (r_term r) (r_vote r) (r_read_states r) (r_log r) (r_max_msg_size r) (r_max_uncommitted_size r) (r_trk r) (r_state r) (r_is_learner r) (r_msgs r) (r_msgs_after_append r) (r_lead r) (r_lead_transferee r) x (r_disable_cc_validation r) (r_uncommitted_size r) (r_read_only r) (r_election_elapsed r) (r_heartbeat_elapsed r) (r_check_quorum r) (r_pre_vote r) (r_heartbeat_timeout r) (r_election_timeout r) (r_randomized_election_timeout r) (r_disable_proposal_forwarding r) (r_step_down_on_removal r) (r_pending_read_index r) (r_draws r).
Definition set_r_disable_cc_validation (r : raft) x : raft := mkRaft (r_id r) (r_term r) (r_vote r) (r_read_states r) (r_log r) (r_max_msg_size r) (r_max_uncommitted_size r) (r_trk r) (r_state r) (r_is_learner r) (r_msgs r) (r_msgs_after_append r) (r_lead r) (r_lead_transferee r) (r_pending_conf_index r) x (r_uncommitted_size r) (r_read_only r) (r_election_elapsed r) (r_heartbeat_elapsed r) (r_check_quorum r) (r_pre_vote r) (r_heartbeat_timeout r) (r_election_timeout r) (r_randomized_election_timeout r) (r_disable_proposal_forwarding r) (r_step_down_on_removal r) (r_pending_read_index r) (r_draws r).
Definition set_r_uncommitted_size (r : raft) x : raft := mkRaft (r_id r) (r_term r) (r_vote r) (r_read_states r) (r_log r) (r_max_msg_size r) (r_max_uncommitted_size r) (r_trk r) (r_state r) (r_is_learner r) (r_msgs r) (r_msgs_after_append r) (r_lead r) (r_lead_transferee r) (r_pending_conf_index r) (r_disable_cc_validation r) x (r_read_only r) (r_election_elapsed r) (r_heartbeat_elapsed r) (r_check_quorum r) (r_pre_vote r) (r_heartbeat_timeout r) (r_election_timeout r) (r_randomized_election_timeout r) (r_disable_proposal_forwarding r) (r_step_down_on_removal r) (r_pending_read_index r) (r_draws r).
Definition set_r_read_only (r : raft) x : raft := mkRaft (r_id r) (r_term r) (r_vote r) (r_read_states r) (r_log r) (r_max_msg_size r) (r_max_uncommitted_size r) (r_trk r) (r_state r) (r_is_learner r) (r_msgs r) (r_msgs_after_append r) (r_lead r) (r_lead_transferee r) (r_pending_conf_index r) (r_disable_cc_validation r) (r_uncommitted_size r) x (r_election_elapsed r) (r_heartbeat_elapsed r) (r_check_quorum r) (r_pre_vote r) (r_heartbeat_timeout r) (r_election_timeout r) (r_randomized_election_timeout r) (r_disable_proposal_forwarding r) (r_step_down_on_removal r) (r_pending_read_index r) (r_draws r).
Definition set_r_election_elapsed (r : raft) x : raft := mkRaft (r_id r) (r_term r) (r_vote r) (r_read_states r) (r_log r) (r_max_msg_size r) (r_max_uncommitted_size r) (r_trk r) (r_state r) (r_is_learner r) (r_msgs r) (r_msgs_after_append r) (r_lead r) (r_lead_transferee r) (r_pending_conf_index r) (r_disable_cc_validation r) (r_uncommitted_size r) (r_read_only r) x (r_heartbeat_elapsed r) (r_check_quorum r) (r_pre_vote r) (r_heartbeat_timeout r) (r_election_timeout r) (r_randomized_election_timeout r) (r_disable_proposal_forwarding r) (r_step_down_on_removal r) (r_pending_read_index r) (r_draws r).
Definition set_r_heartbeat_elapsed (r : raft) x : raft := mkRaft (r_id r) (r_term r) (r_vote r) (r_read_states r) (r_log r) (r_max_msg_size r) (r_max_uncommitted_size r) (r_trk r) (r_state r) (r_is_learner r) (r_msgs r) (r_msgs_after_append r) (r_lead r) (r_lead_transferee r) (r_pending_conf_index r) (r_disable_cc_validation r) (r_uncommitted_size r) (r_read_only r) (r_election_elapsed r) x (r_check_quorum r) (r_pre_vote r) (r_heartbeat_timeout r) (r_election_timeout r) (r_randomized_election_timeout r) (r_disable_proposal_forwarding r) (r_step_down_on_removal r) (r_pending_read_index r) (r_draws r).
Definition set_r_check_quorum (r : raft) x : raft := mkRaft (r_id r) (r_term r) (r_vote r) (r_read_states r) (r_log r) (r_max_msg_size r) (r_max_uncommitted_size r) (r_trk r) (r_state r) (r_is_learner r) (r_msgs r) (r_msgs_after_append r) (r_lead r) (r_lead_transferee r) (r_pending_conf_index r) (r_disable_cc_validation r) (r_uncommitted_size r) (r_read_only r) (r_election_elapsed r) (r_heartbeat_elapsed r) x (r_pre_vote r) (r_heartbeat_timeout r) (r_election_timeout r) (r_randomized_election_timeout r) (r_disable_proposal_forwarding r) (r_step_down_on_removal r) (r_pending_read_index r) (r_draws r).
Definition set_r_pre_vote (r : raft) x : raft := mkRaft (r_id r) (r_term r) (r_vote r) (r_read_states r) (r_log r) (r_max_msg_size r) (r_max_uncommitted_size r) (r_trk r) (r_state r) (r_is_learner r) (r_msgs r) (r_msgs_after_append r) (r_lead r) (r_lead_transferee r) (r_pending_conf_index r) (r_disable_cc_validation r) (r_uncommitted_size r) (r_read_only r) (r_election_elapsed r) (r_heartbeat_elapsed r) (r_check_quorum r) x (r_heartbeat_timeout r) (r_election_timeout r) (r_randomized_election_timeout r) (r_disable_proposal_forwarding r) (r_step_down_on_removal r) (r_pending_read_index r) (r_draws r).
Definition set_r_heartbeat_timeout (r : raft) x : raft := mkRaft (r_id r) (r_term r) (r_vote r) (r_read_states r) (r_log r) (r_max_msg_size r) (r_max_uncommitted_size r) (r_trk r) (r_state r) (r_is_learner r) (r_msgs r) (r_msgs_after_append r) (r_lead r) (r_lead_transferee r) (r_pending_conf_index r) (r_disable_cc_validation r) (r_uncommitted_size r) (r_read_only r) (r_election_elapsed r) (r_heartbeat_elapsed r) (r_check_quorum r) (r_pre_vote r) x (r_election_timeout r) (r_randomized_election_timeout r) (r_disable_proposal_forwarding r) (r_step_down_on_removal r) (r_pending_read_index r) (r_draws r).
Definition set_r_election_timeout (r : raft) x : raft := mkRaft (r_id r) (r_term r) (r_vote r) (r_read_states r) (r_log r) (r_max_msg_size r) (r_max_uncommitted_size r) (r_trk r) (r_state r) (r_is_learner r) (r_msgs r) (r_msgs_after_append r) (r_lead r) (r_lead_transferee r) (r_pending_conf_index r) (r_disable_cc_validation r) (r_uncommitted_size r) (r_read_only r) (r_election_elapsed r) (r_heartbeat_elapsed r) (r_check_quorum r) (r_pre_vote r) (r_heartbeat_timeout r) x (r_randomized_election_timeout r) (r_disable_proposal_forwarding r) (r_step_down_on_removal r) (r_pending_read_index r) (r_draws r).
Definition set_r_randomized_election_timeout (r : raft) x : raft := mkRaft (r_id r) (r_term r) (r_vote r) (r_read_states r) (r_log r) (r_max_msg_size r) (r_max_uncommitted_size r) (r_trk r) (r_state r) (r_is_learner r) (r_msgs r) (r_msgs_after_append r) (r_lead r) (r_lead_transferee r) (r_pending_conf_index r) (r_disable_cc_validation r) (r_uncommitted_size r) (r_read_only r) (r_election_elapsed r) (r_heartbeat_elapsed r) (r_check_quorum r) (r_pre_vote r) (r_heartbeat_timeout r) (r_election_timeout r) x (r_disable_proposal_forwarding r) (r_step_down_on_removal r) (r_pending_read_index r) (r_draws r).
Definition set_r_disable_proposal_forwarding (r : raft) x : raft := mkRaft (r_id r) (r_term r) (r_vote r) (r_read_states r) (r_log r) (r_max_msg_size r) (r_max_uncommitted_size r) (r_trk r) (r_state r) (r_is_learner r) (r_msgs r) (r_msgs_after_append r) (r_lead r) (r_lead_transferee r) (r_pending_conf_index r) (r_disable_cc_validation r) (r_uncommitted_size r) (r_read_only r) (r_election_elapsed r) (r_heartbeat_elapsed r) (r_check_quorum r) (r_pre_vote r) (r_heartbeat_timeout r) (r_election_timeout r) (r_randomized_election_timeout r) x (r_step_down_on_removal r) (r_pending_read_index r) (r_draws r).
Definition set_r_step_down_on_removal (r : raft) x : raft := mkRaft (r_id r) (r_term r) (r_vote r) (r_read_states r) (r_log r) (r_max_msg_size r) (r_max_uncommitted_size r) (r_trk r) (r_state r) (r_is_learner r) (r_msgs r) (r_msgs_after_append r) (r_lead r) (r_lead_transferee r) (r_pending_conf_index r) (r_disable_cc_validation r) (r_uncommitted_size r) (r_read_only r) (r_election_elapsed r) (r_heartbeat_elapsed r) (r_check_quorum r) (r_pre_vote r) (r_heartbeat_timeout r) (r_election_timeout r) (r_randomized_election_timeout r) (r_disable_proposal_forwarding r) x (r_pending_read_index r) (r_draws r).
Definition set_r_pending_read_index (r : raft) x : raft := mkRaft (r_id r) (r_term r) (r_vote r) (r_read_states r) (r_log r) (r_max_msg_size r) (r_max_uncommitted_size r) (r_trk r) (r_state r) (r_is_learner r) (r_msgs r) (r_msgs_after_append r) (r_lead r) (r_lead_transferee r) (r_pending_conf_index r) (r_disable_cc_validation r) (r_uncommitted_size r) (r_read_only r) (r_election_elapsed r) (r_heartbeat_elapsed r) (r_check_quorum r) (r_pre_vote r) (r_heartbeat_timeout r) (r_election_timeout r) (r_randomized_election_timeout r) (r_disable_proposal_forwarding r) (r_step_down_on_removal r) x (r_draws r).
Definition set_r_draws (r : raft) x : raft := mkRaft (r_id r) (r_term r) (r_vote r) (r_read_states r) (r_log r) (r_max_msg_size r) (r_max_uncommitted_size r) (r_trk r) (r_state r) (r_is_learner r) (r_msgs r) (r_msgs_after_append r) (r_lead r) (r_lead_transferee r) (r_pending_conf_index r) (r_disable_cc_validation r) (r_uncommitted_size r) (r_read_only r) (r_election_elapsed r) (r_heartbeat_elapsed r) (r_check_quorum r) (r_pre_vote r) (r_heartbeat_timeout r) (r_election_timeout r) (r_randomized_election_timeout r) (r_disable_proposal_forwarding r) (r_step_down_on_removal r) (r_pending_read_index r) x.


Definition campaign_transfer_ctx : bytes :=
  (* []byte("CampaignTransfer") *)
  [67;97;109;112;97;105;103;110;84;114;97;110;115;102;101;114].

Inductive campaign_type := CampaignPreElection | CampaignElection | CampaignTransfer.

Definition get_progress (r : raft) (id : N) : option progress := alookup (t_progress (r_trk r)) id.
Definition put_progress (r : raft) (id : N) (p : progress) : raft :=
  set_r_trk r (t_with_progress (r_trk r) (ainsert (t_progress (r_trk r)) id p)).

Definition hard_state (r : raft) : hardstate := mkHS (r_term r) (r_vote r) (l_committed (r_log r)).
Definition soft_state (r : raft) : softstate := mkSS (r_lead r) (r_state r).

Definition is_vote_family (t : msg_type) : bool :=
  match t with MsgVote | MsgVoteResp | MsgPreVote | MsgPreVoteResp => true | _ => false end.

(* send *)
Definition send (r : raft) (m : message) : res raft :=
  let m := if N.eqb (m_from m) NoneId then set_from m (r_id r) else m in
  do m <- (if is_vote_family (m_type m) then
             if N.eqb (m_term m) 0 then Panic PSendTermUnset else Ok m
           else
             if negb (N.eqb (m_term m) 0) then Panic PSendTermSet else
             match m_type m with
             | MsgProp | MsgReadIndex => Ok m
             | _ => Ok (set_term m (r_term r))
             end);
  match m_type m with
  | MsgAppResp | MsgVoteResp | MsgPreVoteResp =>
      Ok (set_r_msgs_after_append r (r_msgs_after_append r ++ [m]))
  | _ =>
      if N.eqb (m_to m) (r_id r) then Panic PSendSelf
      else Ok (set_r_msgs r (r_msgs r ++ [m]))
  end.

Section WithStorage.
Variable st : memstorage.

Definition last_index (r : raft) : N := l_last_index st (r_log r).

(* maybeSendSnapshot *)
Definition maybe_send_snapshot (r : raft) (to : N) (pr : progress) : res (raft * bool) :=
  if negb (pr_recent_active pr) then Ok (r, false) else
  let snap := l_snapshot st (r_log r) in
  if N.eqb (s_index snap) 0 then Panic PNeedSnapshot else
  let r := put_progress r to (pr_become_snapshot pr (s_index snap)) in
  let m := mkMsg MsgSnap to 0 0 0 0 [] 0 0 (Some snap) false 0 [] in
  do r <- send r m; Ok (r, true).

(* maybeSendAppend *)
Definition maybe_send_append (r : raft) (to : N) (sendIfEmpty : bool) : res (raft * bool) :=
  match get_progress r to with
  | None => Panic PNilProgress
  | Some pr =>
      if pr_is_paused pr then Ok (r, false) else
      let prevIndex := pr_prev (pr_next pr) in
      match l_term st (r_log r) prevIndex with
      | (prevTerm, ENone) =>
          do ee <- (if negb (pr_state_eqb (pr_state_ pr) StateReplicate) || negb (infl_full (pr_inflights pr))
                    then l_entries st (r_log r) (pr_next pr) (r_max_msg_size r)
                    else Ok ([], ENone));
          let '(ents, e) := ee in
          if N.eqb (nlen ents) 0 && negb sendIfEmpty then Ok (r, false) else
          match e with
          | ENone =>
              let m := mkMsg MsgApp to 0 0 prevTerm prevIndex ents (l_committed (r_log r)) 0 None false 0 [] in
              do r <- send r m;
              do pr' <- pr_sent_entries pr (nlen ents) (payloads_size ents);
              let pr' := pr_set_sent_commit pr' (l_committed (r_log r)) in
              Ok (put_progress r to pr', true)
          | _ => maybe_send_snapshot r to pr
          end
      | _ => maybe_send_snapshot r to pr
      end
  end.

Definition send_append (r : raft) (to : N) : res raft :=
  do x <- maybe_send_append r to true; Ok (fst x).

(* sendHeartbeat *)
Definition send_heartbeat (r : raft) (to : N) (ctx : bytes) : res raft :=
  match get_progress r to with
  | None => Panic PNilProgress
  | Some pr =>
      let commit := N.min (pr_match pr) (l_committed (r_log r)) in
      let m := mkMsg MsgHeartbeat to 0 0 0 0 [] commit 0 None false 0 ctx in
      do r <- send r m;
      Ok (put_progress r to (pr_set_sent_commit pr commit))
  end.

(* trk.Visit: ids in ascending order (the association list is sorted) *)
Definition progress_ids (r : raft) : list N := akeys (t_progress (r_trk r)).

Fixpoint visit_others (f : raft -> N -> res raft) (r : raft) (ids : list N) : res raft :=
  match ids with
  | [] => Ok r
  | id :: rest =>
      if N.eqb id (r_id r) then visit_others f r rest
      else do r' <- f r id; visit_others f r' rest
  end.

Definition bcast_append (r : raft) : res raft := visit_others send_append r (progress_ids r).

Definition bcast_heartbeat_with_ctx (r : raft) (ctx : bytes) : res raft :=
  visit_others (fun r id => send_heartbeat r id ctx) r (progress_ids r).

Definition bcast_heartbeat (r : raft) : res raft :=
  bcast_heartbeat_with_ctx r (ro_heartbeat_ctx (r_read_only r)).

(* maybeCommit *)
Definition maybe_commit (r : raft) : res (raft * bool) :=
  do x <- l_maybe_commit st (r_log r) (r_term r) (t_committed (r_trk r));
  Ok (set_r_log r (fst x), snd x).

(* resetRandomizedElectionTimeout: the draw is an input *)
Definition reset_randomized (r : raft) : res raft :=
  match r_draws r with
  | [] => Panic POutOfDraws
  | d :: rest =>
      Ok (set_r_draws (set_r_randomized_election_timeout r (r_election_timeout r + d)) rest)
  end.

(* reset *)
Definition reset (r : raft) (term : N) : res raft :=
  let r := if negb (N.eqb (r_term r) term) then set_r_vote (set_r_term r term) NoneId else r in
  let r := set_r_lead r NoneId in
  let r := set_r_heartbeat_elapsed (set_r_election_elapsed r 0) 0 in
  do r <- reset_randomized r;
  let r := set_r_lead_transferee r NoneId in
  let li := last_index r in
  let trk := r_trk r in
  let pm := map (fun kv =>
                   let id := fst kv in
                   (id, mkPr (if N.eqb id (r_id r) then li else 0) (li + 1) 0 StateProbe 0 false false
                             (new_inflights (t_max_inflight trk) (t_max_inflight_bytes trk))
                             (pr_is_learner (snd kv))))
                (t_progress trk) in
  let r := set_r_trk r (t_with_progress (reset_votes trk) pm) in
  let r := set_r_uncommitted_size (set_r_pending_conf_index r 0) 0 in
  Ok (set_r_read_only r (new_readonly (ro_option (r_read_only r)))).

(* increaseUncommittedSize / reduceUncommittedSize *)
Definition increase_uncommitted_size (r : raft) (ents : list entry) : raft * bool :=
  let s := payloads_size ents in
  if (0 <? r_uncommitted_size r) && (0 <? s) && (r_max_uncommitted_size r <? r_uncommitted_size r + s)
  then (r, false)
  else (set_r_uncommitted_size r (r_uncommitted_size r + s), true).

Definition reduce_uncommitted_size (r : raft) (s : N) : raft :=
  if r_uncommitted_size r <? s then set_r_uncommitted_size r 0
  else set_r_uncommitted_size r (r_uncommitted_size r - s).

Fixpoint stamp (term next : N) (es : list entry) : list entry :=
  match es with
  | [] => []
  | e :: rest => mkEntry term next (e_type e) (e_has_type e) (e_data e) (e_has_data e) (e_leave e) :: stamp term (next + 1) rest
  end.

(* appendEntry *)
Definition append_entry (r : raft) (es : list entry) : res (raft * bool) :=
  let li := last_index r in
  let cloned := stamp (r_term r) (li + 1) es in
  let '(r, ok) := increase_uncommitted_size r cloned in
  if negb ok then Ok (r, false) else
  do l <- l_append st (r_log r) cloned;
  let r := set_r_log r l in
  let m := mkMsg MsgAppResp (r_id r) 0 0 0 (last_index r) [] 0 0 None false 0 [] in
  do r <- send r m; Ok (r, true).

(* becomeFollower / becomeCandidate / becomePreCandidate / becomeLeader *)
Definition become_follower (r : raft) (term lead : N) : res raft :=
  do r <- reset r term;
  Ok (set_r_state (set_r_lead r lead) StateFollower).

Definition become_candidate (r : raft) : res raft :=
  if state_type_eqb (r_state r) StateLeader then Panic PLeaderToCandidate else
  do r <- reset r (r_term r + 1);
  Ok (set_r_state (set_r_vote r (r_id r)) StateCandidate).

Definition become_pre_candidate (r : raft) : res raft :=
  if state_type_eqb (r_state r) StateLeader then Panic PLeaderToPreCandidate else
  let r := set_r_trk r (reset_votes (r_trk r)) in
  Ok (set_r_state (set_r_lead r NoneId) StatePreCandidate).

Definition empty_entry : entry := mkEntry 0 0 EntryNormal false [] false false.

Definition become_leader (r : raft) : res raft :=
  if state_type_eqb (r_state r) StateFollower then Panic PFollowerToLeader else
  do r <- reset r (r_term r);
  let r := set_r_state (set_r_lead r (r_id r)) StateLeader in
  match get_progress r (r_id r) with
  | None => Panic PNilProgress
  | Some pr =>
      let r := put_progress r (r_id r) (pr_with_recent_active (pr_become_replicate pr) true) in
      let r := set_r_pending_conf_index r (last_index r) in
      do x <- append_entry r [empty_entry];
      if snd x then Ok (fst x) else Panic PEmptyEntryDropped
  end.

(* promotable *)
Definition promotable (r : raft) : bool :=
  match get_progress r (r_id r) with
  | Some pr => negb (pr_is_learner pr) && negb (l_has_next_or_in_progress_snapshot (r_log r))
  | None => false
  end.

(* hasUnappliedConfChanges *)
Definition has_unapplied_conf_changes (r : raft) : res bool :=
  let l := r_log r in
  if l_committed l <=? l_applied l then Ok false else
  let lo := l_applied l + 1 in
  let hi := l_committed l + 1 in
  l_scan_exists st l (S (N.to_nat (hi - lo))) lo hi (l_max_applying_size l)
                (fun e => is_cc_type (e_type e)).

(* campaign *)
Fixpoint campaign_send (r : raft) (ids : list N) (voteMsg : msg_type) (term : N)
         (lastTerm lastIdx : N) (ctx : bytes) : res raft :=
  match ids with
  | [] => Ok r
  | id :: rest =>
      do r <- (if N.eqb id (r_id r) then
                 let resp := match voteMsg with MsgPreVote => MsgPreVoteResp | _ => MsgVoteResp end in
                 send r (mkMsg resp id 0 term 0 0 [] 0 0 None false 0 [])
               else
                 send r (mkMsg voteMsg id 0 term lastTerm lastIdx [] 0 0 None false 0 ctx));
      campaign_send r rest voteMsg term lastTerm lastIdx ctx
  end.

Definition campaign (r : raft) (t : campaign_type) : res raft :=
  do rv <- (match t with
            | CampaignPreElection =>
                do r <- become_pre_candidate r; Ok (r, MsgPreVote, r_term r + 1)
            | _ =>
                do r <- become_candidate r; Ok (r, MsgVote, r_term r)
            end);
  let '(r, voteMsg, term) := rv in
  let ids := voter_ids (t_config (r_trk r)) in
  do last <- l_last_entry_id st (r_log r);
  let ctx := match t with CampaignTransfer => campaign_transfer_ctx | _ => [] end in
  campaign_send r ids voteMsg term (fst last) (snd last) ctx.

(* hup *)
Definition hup (r : raft) (t : campaign_type) : res raft :=
  if state_type_eqb (r_state r) StateLeader then Ok r else
  if negb (promotable r) then Ok r else
  do u <- has_unapplied_conf_changes r;
  if u then Ok r else campaign r t.

(* poll *)
Definition poll (r : raft) (id : N) (v : bool) : raft * vote_result :=
  let trk := record_vote (r_trk r) id v in
  (set_r_trk r trk, snd (tally_votes trk)).

(* handleAppendEntries *)
Definition handle_append_entries (r : raft) (m : message) : res raft :=
  let resp idx := mkMsg MsgAppResp (m_from m) 0 0 0 idx [] 0 0 None false 0 [] in
  if m_index m <? l_committed (r_log r) then send r (resp (l_committed (r_log r))) else
  do x <- l_maybe_append st (r_log r) (m_index m) (m_logterm m) (m_entries m) (m_commit m);
  match x with
  | (l, Some mlast) => send (set_r_log r l) (resp mlast)
  | (l, None) =>
      let r := set_r_log r l in
      let hintIndex := N.min (m_index m) (last_index r) in
      let '(hi, ht) := l_find_conflict_by_term st (r_log r) hintIndex (m_logterm m) in
      send r (mkMsg MsgAppResp (m_from m) 0 0 ht (m_index m) [] 0 0 None true hi [])
  end.

(* handleHeartbeat *)
Definition handle_heartbeat (r : raft) (m : message) : res raft :=
  do l <- l_commit_to st (r_log r) (m_commit m);
  send (set_r_log r l) (mkMsg MsgHeartbeatResp (m_from m) 0 0 0 0 [] 0 0 None false 0 (m_context m)).

(* switchToConfig *)
Fixpoint visit_maybe_send (r : raft) (ids : list N) : res raft :=
  match ids with
  | [] => Ok r
  | id :: rest =>
      if N.eqb id (r_id r) then visit_maybe_send r rest
      else do x <- maybe_send_append r id false; visit_maybe_send (fst x) rest
  end.

Definition switch_to_config (r : raft) (cfg : config) (pm : progress_map) : res (raft * confstate) :=
  let r := set_r_trk r (t_with_config_progress (r_trk r) cfg pm) in
  let cs := conf_state cfg in
  let mine := get_progress r (r_id r) in
  let ok := match mine with Some _ => true | None => false end in
  let isL := match mine with Some pr => pr_is_learner pr | None => false end in
  let r := set_r_is_learner r isL in
  if (negb ok || isL) && state_type_eqb (r_state r) StateLeader then
    if r_step_down_on_removal r then
      do r <- become_follower r (r_term r) NoneId; Ok (r, cs)
    else Ok (r, cs)
  else if negb (state_type_eqb (r_state r) StateLeader) || N.eqb (nlen (cs_voters cs)) 0 then Ok (r, cs)
  else
    do x <- maybe_commit r;
    do r <- (if snd x then bcast_append (fst x) else visit_maybe_send (fst x) (progress_ids (fst x)));
    let r := if negb (smem (voter_ids (t_config (r_trk r))) (r_lead_transferee r)) &&
                negb (N.eqb (r_lead_transferee r) 0)
             then set_r_lead_transferee r NoneId else r in
    Ok (r, cs).

(* restore *)
Definition restore (r : raft) (s : snapshot) : res (raft * bool) :=
  if s_index s <=? l_committed (r_log r) then Ok (r, false) else
  if negb (state_type_eqb (r_state r) StateFollower) then
    do r <- become_follower r (r_term r + 1) NoneId; Ok (r, false)
  else
  let cs := s_conf s in
  let found := existsb (N.eqb (r_id r)) (cs_voters cs) || existsb (N.eqb (r_id r)) (cs_learners cs)
               || existsb (N.eqb (r_id r)) (cs_voters_outgoing cs) in
  if negb found then Ok (r, false) else
  if l_match_term st (r_log r) (s_index s) (s_term s) then
    do l <- l_commit_to st (r_log r) (s_index s); Ok (set_r_log r l, false)
  else
  let r := set_r_log r (l_restore (r_log r) s) in
  let trk := make_tracker (t_max_inflight (r_trk r)) (t_max_inflight_bytes (r_trk r)) in
  (* r.trk is replaced wholesale: the votes are dropped as well *)
  let r := set_r_trk r trk in
  match cc_restore trk (last_index r) cs with
  | inr _ => Panic PRestoreConfig
  | inl (cfg, pm) =>
      do x <- switch_to_config r cfg pm;
      if confstate_equiv cs (snd x) then Ok (fst x, true) else Panic PConfStatesNotEquivalent
  end.

(* handleSnapshot *)
Definition handle_snapshot (r : raft) (m : message) : res raft :=
  let s := match m_snapshot m with Some s => s | None => empty_snapshot end in
  do x <- restore r s;
  let '(r, ok) := x in
  let idx := if ok then last_index r else l_committed (r_log r) in
  send r (mkMsg MsgAppResp (m_from m) 0 0 0 idx [] 0 0 None false 0 []).

(* applyConfChange *)
Definition apply_conf_change_raft (r : raft) (cc : confchange_v2) : res (raft * confstate) :=
  match apply_conf_change (r_trk r) (last_index r) cc with
  | inr _ => Panic PApplyConfChange
  | inl (cfg, pm) => switch_to_config r cfg pm
  end.

(* loadState *)
Definition load_state (r : raft) (h : hardstate) : res raft :=
  if (hs_commit h <? l_committed (r_log r)) || (last_index r <? hs_commit h) then Panic PLoadStateCommit else
  Ok (set_r_vote (set_r_term (set_r_log r (l_with_committed (r_log r) (hs_commit h))) (hs_term h)) (hs_vote h)).

(* committedEntryInCurrentTerm *)
Definition committed_entry_in_current_term (r : raft) : bool :=
  N.eqb (l_zero_term (l_term st (r_log r) (l_committed (r_log r)))) (r_term r).

(* responseToReadIndexReq: Some message to send, or None when answered locally *)
Definition response_to_read_index_req (r : raft) (req : message) (readIndex : N)
  : res (raft * option message) :=
  if N.eqb (m_from req) NoneId || N.eqb (m_from req) (r_id r) then
    match m_entries req with
    | e :: _ => Ok (set_r_read_states r (r_read_states r ++ [mkRS readIndex (e_data e)]), None)
    | [] => Panic PReadIndexEntries
    end
  else
    Ok (r, Some (mkMsg MsgReadIndexResp (m_from req) 0 0 0 readIndex (m_entries req) 0 0 None false 0 [])).

Definition respond_read_index (r : raft) (req : message) (readIndex : N) : res raft :=
  do x <- response_to_read_index_req r req readIndex;
  match snd x with
  | Some resp => send (fst x) resp
  | None => Ok (fst x)
  end.

(* sendMsgReadIndexResponse *)
Definition send_msg_read_index_response (r : raft) (m : message) : res raft :=
  (* only one voting member, the leader itself: no quorum round is needed (a leader that was removed
     from the configuration and has not stepped down is not that member) *)
  if existsb (N.eqb (r_id r)) (c_voters (t_config (r_trk r))) && is_singleton (t_config (r_trk r))
  then respond_read_index r m (l_committed (r_log r)) else
  match ro_option (r_read_only r) with
  | ReadOnlySafe =>
      let ro := ro_add_request (r_read_only r) (l_committed (r_log r)) m in
      do ro <- ro_recv_ack ro (r_id r) (ro_heartbeat_ctx ro);
      bcast_heartbeat (set_r_read_only r ro)
  | ReadOnlyLeaseBased => respond_read_index r m (l_committed (r_log r))
  end.

Fixpoint send_read_index_responses (r : raft) (ms : list message) : res raft :=
  match ms with
  | [] => Ok r
  | m :: rest => do r <- send_msg_read_index_response r m; send_read_index_responses r rest
  end.

(* releasePendingReadIndexMessages *)
Definition release_pending_read_index (r : raft) : res raft :=
  match r_pending_read_index r with
  | [] => Ok r
  | msgs =>
      if negb (committed_entry_in_current_term r) then Ok r else
      send_read_index_responses (set_r_pending_read_index r []) msgs
  end.

Definition send_timeout_now (r : raft) (to : N) : res raft :=
  send r (mkMsg MsgTimeoutNow to 0 0 0 0 [] 0 0 None false 0 []).

(* the "for r.maybeSendAppend(from, false) {}" loop *)
Fixpoint send_append_loop (fuel : nat) (r : raft) (to : N) : res raft :=
  match fuel with
  | O => Panic POutOfFuel
  | S f =>
      do x <- maybe_send_append r to false;
      if snd x then send_append_loop f (fst x) to else Ok (fst x)
  end.

Fixpoint respond_reads (r : raft) (rss : list (message * N)) : res raft :=
  match rss with
  | [] => Ok r
  | (req, idx) :: rest => do r <- respond_read_index r req idx; respond_reads r rest
  end.

(* ---------- decoding the payload of a configuration-change entry ----------
   The protobuf wire format of raftpb.ConfChange / raftpb.ConfChangeV2 as raft nodes marshal it
   (varint and length-delimited fields only; the last occurrence of a scalar field wins). *)
Fixpoint pb_varint (fuel : nat) (bs : list N) (shift acc : N) : option (N * list N) :=
  match fuel, bs with
  | S f, b :: rest =>
      let acc := acc + (b mod 128) * 2 ^ shift in
      if b <? 128 then Some (acc, rest) else pb_varint f rest (shift + 7) acc
  | _, _ => None
  end.

Inductive pbval := PV (v : N) | PB (b : list N).

Fixpoint pb_fields (fuel : nat) (bs : list N) : option (list (N * pbval)) :=
  match fuel with
  | O => None
  | S f =>
      match bs with
      | [] => Some []
      | _ =>
          match pb_varint 10 bs 0 0 with
          | None => None
          | Some (key, rest) =>
              let fld := key / 8 in
              let w := key mod 8 in
              if N.eqb w 0 then
                match pb_varint 10 rest 0 0 with
                | Some (v, rest') =>
                    match pb_fields f rest' with Some l => Some ((fld, PV v) :: l) | None => None end
                | None => None
                end
              else if N.eqb w 2 then
                match pb_varint 10 rest 0 0 with
                | Some (len, rest') =>
                    if nlen rest' <? len then None else
                    match pb_fields f (ndrop len rest') with
                    | Some l => Some ((fld, PB (ntake len rest')) :: l)
                    | None => None
                    end
                | None => None
                end
              else None
          end
      end
  end.

Definition pb_parse (bs : list N) : option (list (N * pbval)) := pb_fields (S (length bs)) bs.

Fixpoint pb_scalar (fld : N) (l : list (N * pbval)) (acc : N) : N :=
  match l with
  | [] => acc
  | (f, PV v) :: rest => pb_scalar fld rest (if N.eqb f fld then v else acc)
  | _ :: rest => pb_scalar fld rest acc
  end.

Definition cc_type_of (v : N) : cc_type :=
  if N.eqb v 0 then CCAddNode else if N.eqb v 1 then CCRemoveNode else
  if N.eqb v 2 then CCUpdateNode else if N.eqb v 3 then CCAddLearnerNode else CCUnknown.

Definition cc_transition_of (v : N) : cc_transition :=
  if N.eqb v 1 then TransJointImplicit else if N.eqb v 2 then TransJointExplicit else TransAuto.

Fixpoint pb_changes (l : list (N * pbval)) : option (list cc_single) :=
  match l with
  | [] => Some []
  | (f, PB b) :: rest =>
      if N.eqb f 2 then
        match pb_parse b, pb_changes rest with
        | Some fs, Some cs => Some (mkCCS (cc_type_of (pb_scalar 1 fs 0)) (pb_scalar 2 fs 0) :: cs)
        | _, _ => None
        end
      else pb_changes rest
  | _ :: rest => pb_changes rest
  end.

(* cc.AsV2() of the change carried by a configuration-change entry *)
Definition decode_cc (e : entry) : option confchange_v2 :=
  match e_type e with
  | EntryNormal => None
  | EntryConfChange =>
      match pb_parse (e_data e) with
      | Some fs => Some (mkCCV2 TransAuto [mkCCS (cc_type_of (pb_scalar 2 fs 0)) (pb_scalar 3 fs 0)])
      | None => None
      end
  | EntryConfChangeV2 =>
      match pb_parse (e_data e) with
      | Some fs =>
          match pb_changes fs with
          | Some cs => Some (mkCCV2 (cc_transition_of (pb_scalar 1 fs 0)) cs)
          | None => None
          end
      | None => None
      end
  end.

(* checkConfChange: does the current configuration accept the change? (dry run of the Changer) *)
Definition cc_accepted (r : raft) (li : N) (e : entry) : bool :=
  match decode_cc e with
  | Some cc => match apply_conf_change (r_trk r) li cc with inl _ => true | inr _ => false end
  | None => true
  end.

(* the conf-change gate of stepLeader/MsgProp: returns the (possibly neutralised) entries *)
Fixpoint prop_gate (r : raft) (li : N) (i : N) (es : list entry) : raft * list entry :=
  match es with
  | [] => (r, [])
  | e :: rest =>
      if is_cc_type (e_type e) then
        let alreadyPending := l_applied (r_log r) <? r_pending_conf_index r in
        let alreadyJoint := 0 <? nlen (c_outgoing (t_config (r_trk r))) in
        let wantsLeave := e_leave e in
        let failed := alreadyPending || (alreadyJoint && negb wantsLeave) || (negb alreadyJoint && wantsLeave) ||
                      negb (cc_accepted r li e) in
        if failed && negb (r_disable_cc_validation r) then
          let '(r', rest') := prop_gate r li (i + 1) rest in
          (r', mkEntry 0 0 EntryNormal true [] false false :: rest')
        else
          let '(r', rest') := prop_gate (set_r_pending_conf_index r (li + i + 1)) li (i + 1) rest in
          (r', e :: rest')
      else
        let '(r', rest') := prop_gate r li (i + 1) rest in (r', e :: rest')
  end.

Definition clear_recent_active (r : raft) : raft :=
  set_r_trk r (t_with_progress (r_trk r)
     (map (fun kv => if N.eqb (fst kv) (r_id r) then kv else (fst kv, pr_with_recent_active (snd kv) false))
          (t_progress (r_trk r)))).

(* stepLeader *)
Definition step_leader (r : raft) (m : message) : res (raft * err) :=
  match m_type m with
  | MsgBeat => do r <- bcast_heartbeat r; Ok (r, ENone)
  | MsgCheckQuorum =>
      do r <- (if negb (quorum_active (r_trk r)) then become_follower r (r_term r) NoneId else Ok r);
      Ok (clear_recent_active r, ENone)
  | MsgProp =>
      match m_entries m with
      | [] => Panic PEmptyProp
      | es =>
          match get_progress r (r_id r) with
          | None => Ok (r, ErrProposalDropped)
          | Some _ =>
              if negb (N.eqb (r_lead_transferee r) NoneId) then Ok (r, ErrProposalDropped) else
              let '(r, es) := prop_gate r (last_index r) 0 es in
              do x <- append_entry r es;
              if negb (snd x) then Ok (fst x, ErrProposalDropped) else
              do r <- bcast_append (fst x); Ok (r, ENone)
          end
      end
  | MsgReadIndex =>
      if negb (committed_entry_in_current_term r) then
        Ok (set_r_pending_read_index r (r_pending_read_index r ++ [m]), ENone)
      else
        do r <- send_msg_read_index_response r m; Ok (r, ENone)
  | MsgForgetLeader => Ok (r, ENone)
  | _ =>
      match get_progress r (m_from m) with
      | None => Ok (r, ENone)
      | Some pr =>
          let from := m_from m in
          match m_type m with
          | MsgAppResp =>
              let pr := pr_with_recent_active pr true in
              let r := put_progress r from pr in
              if m_reject m then
                let nextProbeIdx :=
                    if 0 <? m_logterm m
                    then fst (l_find_conflict_by_term st (r_log r) (m_rejecthint m) (m_logterm m))
                    else m_rejecthint m in
                let '(pr, dec) := pr_maybe_decr_to pr (m_index m) nextProbeIdx in
                if dec then
                  let pr := if pr_state_eqb (pr_state_ pr) StateReplicate then pr_become_probe pr else pr in
                  do r <- send_append (put_progress r from pr) from; Ok (r, ENone)
                else Ok (put_progress r from pr, ENone)
              else
                let '(pr, upd) := pr_maybe_update pr (m_index m) in
                if upd || (N.eqb (pr_match pr) (m_index m) && pr_state_eqb (pr_state_ pr) StateProbe) then
                  let pr :=
                      match pr_state_ pr with
                      | StateProbe => pr_become_replicate pr
                      | StateSnapshot =>
                          if l_first_index st (r_log r) <=? pr_match pr + 1
                          then pr_become_replicate (pr_become_probe pr) else pr
                      | StateReplicate => pr_with_inflights pr (infl_free_le (pr_inflights pr) (m_index m))
                      end in
                  let r := put_progress r from pr in
                  do x <- maybe_commit r;
                  let '(r, committed) := x in
                  do r <- (if committed then
                             do r <- release_pending_read_index r; bcast_append r
                           else if negb (N.eqb (r_id r) from) &&
                                   match get_progress r from with
                                   | Some p => pr_can_bump_commit p (l_committed (r_log r))
                                   | None => false end
                                then send_append r from
                                else Ok r);
                  do r <- (if negb (N.eqb (r_id r) from)
                           then send_append_loop (S (S (N.to_nat (last_index r)))) r from
                           else Ok r);
                  do r <- (if N.eqb from (r_lead_transferee r) &&
                              match get_progress r from with
                              | Some p => N.eqb (pr_match p) (last_index r)
                              | None => false end
                           then send_timeout_now r from else Ok r);
                  Ok (r, ENone)
                else Ok (put_progress r from pr, ENone)
          | MsgHeartbeatResp =>
              let pr := pr_with_paused (pr_with_recent_active pr true) false in
              let r := put_progress r from pr in
              do r <- (if (pr_match pr <? last_index r) || pr_state_eqb (pr_state_ pr) StateProbe
                       then send_append r from else Ok r);
              match ro_option (r_read_only r), m_context m with
              | ReadOnlySafe, (_ :: _) =>
                  do ro <- ro_recv_ack (r_read_only r) from (m_context m);
                  do x <- ro_maybe_advance ro (c_voters (t_config (r_trk r))) (c_outgoing (t_config (r_trk r)));
                  do r <- respond_reads (set_r_read_only r (fst x)) (snd x);
                  Ok (r, ENone)
              | _, _ => Ok (r, ENone)
              end
          | MsgSnapStatus =>
              if negb (pr_state_eqb (pr_state_ pr) StateSnapshot) then Ok (r, ENone) else
              let pr := if negb (m_reject m) then pr_become_probe pr
                        else pr_become_probe (pr_with_pending_snapshot pr 0) in
              Ok (put_progress r from (pr_with_paused pr true), ENone)
          | MsgUnreachable =>
              let pr := if pr_state_eqb (pr_state_ pr) StateReplicate then pr_become_probe pr else pr in
              Ok (put_progress r from pr, ENone)
          | MsgTransferLeader =>
              if pr_is_learner pr then Ok (r, ENone) else
              let last := r_lead_transferee r in
              if negb (N.eqb last NoneId) && N.eqb last from then Ok (r, ENone) else
              let r := if negb (N.eqb last NoneId) then set_r_lead_transferee r NoneId else r in
              if N.eqb from (r_id r) then Ok (r, ENone) else
              let r := set_r_lead_transferee (set_r_election_elapsed r 0) from in
              do r <- (if N.eqb (pr_match pr) (last_index r) then send_timeout_now r from
                       else send_append r from);
              Ok (r, ENone)
          | _ => Ok (r, ENone)
          end
      end
  end.

(* stepCandidate *)
Definition step_candidate (r : raft) (m : message) : res (raft * err) :=
  let myResp := if state_type_eqb (r_state r) StatePreCandidate then MsgPreVoteResp else MsgVoteResp in
  match m_type m with
  | MsgProp => Ok (r, ErrProposalDropped)
  | MsgApp =>
      do r <- become_follower r (m_term m) (m_from m);
      do r <- handle_append_entries r m; Ok (r, ENone)
  | MsgHeartbeat =>
      do r <- become_follower r (m_term m) (m_from m);
      do r <- handle_heartbeat r m; Ok (r, ENone)
  | MsgSnap =>
      do r <- become_follower r (m_term m) (m_from m);
      do r <- handle_snapshot r m; Ok (r, ENone)
  | MsgTimeoutNow => Ok (r, ENone)
  | t =>
      if msg_type_eqb t myResp then
        (* a granted pre-vote carries Term+1; any other grant answers an earlier pre-campaign *)
        if state_type_eqb (r_state r) StatePreCandidate && negb (m_reject m) &&
           negb (N.eqb (m_term m) (r_term r + 1)) then Ok (r, ENone) else
        let '(r, res) := poll r (m_from m) (negb (m_reject m)) in
        match res with
        | VoteWon =>
            if state_type_eqb (r_state r) StatePreCandidate then
              do r <- campaign r CampaignElection; Ok (r, ENone)
            else
              (* lead only once the own vote is recorded, i.e. term and vote are durable *)
              match alookup (t_votes (r_trk r)) (r_id r) with
              | Some true =>
                  do r <- become_leader r;
                  do r <- bcast_append r; Ok (r, ENone)
              | _ => Ok (r, ENone)
              end
        | VoteLost => do r <- become_follower r (r_term r) NoneId; Ok (r, ENone)
        | VotePending => Ok (r, ENone)
        end
      else Ok (r, ENone)
  end.

(* stepFollower *)
Definition step_follower (r : raft) (m : message) : res (raft * err) :=
  match m_type m with
  | MsgProp =>
      if N.eqb (r_lead r) NoneId then Ok (r, ErrProposalDropped)
      else if r_disable_proposal_forwarding r then Ok (r, ErrProposalDropped)
      else do r <- send r (set_to m (r_lead r)); Ok (r, ENone)
  | MsgApp =>
      let r := set_r_lead (set_r_election_elapsed r 0) (m_from m) in
      do r <- handle_append_entries r m; Ok (r, ENone)
  | MsgHeartbeat =>
      let r := set_r_lead (set_r_election_elapsed r 0) (m_from m) in
      do r <- handle_heartbeat r m; Ok (r, ENone)
  | MsgSnap =>
      let r := set_r_lead (set_r_election_elapsed r 0) (m_from m) in
      do r <- handle_snapshot r m; Ok (r, ENone)
  | MsgTransferLeader =>
      if N.eqb (r_lead r) NoneId then Ok (r, ENone)
      else do r <- send r (set_to m (r_lead r)); Ok (r, ENone)
  | MsgForgetLeader =>
      match ro_option (r_read_only r) with
      | ReadOnlyLeaseBased => Ok (r, ENone)
      | ReadOnlySafe => Ok (set_r_lead r NoneId, ENone)
      end
  | MsgTimeoutNow => do r <- hup r CampaignTransfer; Ok (r, ENone)
  | MsgReadIndex =>
      if N.eqb (r_lead r) NoneId then Ok (r, ENone)
      else do r <- send r (set_to m (r_lead r)); Ok (r, ENone)
  | MsgReadIndexResp =>
      match m_entries m with
      | [e] => Ok (set_r_read_states r (r_read_states r ++ [mkRS (m_index m) (e_data e)]), ENone)
      | _ => Ok (r, ENone)
      end
  | _ => Ok (r, ENone)
  end.

(* Step.  [step_rec] stands for the nested r.Step call made by appliedTo (the automatic
   leave-joint proposal); it is instantiated below. *)
Section StepGen.
Variable step_rec : raft -> message -> res (raft * err).

Definition leave_joint_prop : message :=
  mkMsg MsgProp 0 0 0 0 0 [mkEntry 0 0 EntryConfChangeV2 true [] false true] 0 0 None false 0 [].

(* appliedTo *)
Definition applied_to (r : raft) (index size : N) : res raft :=
  let newApplied := N.max index (l_applied (r_log r)) in
  do l <- l_applied_to (r_log r) newApplied size;
  let r := set_r_log r l in
  if c_auto_leave (t_config (r_trk r)) && (r_pending_conf_index r <=? newApplied) &&
     state_type_eqb (r_state r) StateLeader
  then do x <- step_rec r leave_joint_prop; Ok (fst x)
  else Ok r.

(* appliedSnap *)
Definition applied_snap (r : raft) (s : snapshot) : res raft :=
  let r := set_r_log r (l_stable_snap_to (r_log r) (s_index s)) in
  applied_to r (s_index s) 0.

(* the term handling at the top of Step; the boolean says whether Step goes on to the
   type switch *)
Definition step_preamble (r : raft) (m : message) : res (raft * bool) :=
     (if N.eqb (m_term m) 0 then Ok (r, true)
      else if r_term r <? m_term m then
        let isVote := match m_type m with MsgVote | MsgPreVote => true | _ => false end in
        let force := bytes_eqb (m_context m) campaign_transfer_ctx in
        let inLease := r_check_quorum r && negb (N.eqb (r_lead r) NoneId) &&
                       (r_election_elapsed r <? r_election_timeout r) in
        if isVote && negb force && inLease then Ok (r, false) else
        match m_type m with
        | MsgPreVote => Ok (r, true)
        | MsgPreVoteResp => if negb (m_reject m) then Ok (r, true)
                            else do r <- become_follower r (m_term m) NoneId; Ok (r, true)
        | MsgApp | MsgHeartbeat | MsgSnap =>
            do r <- become_follower r (m_term m) (m_from m); Ok (r, true)
        | _ => do r <- become_follower r (m_term m) NoneId; Ok (r, true)
        end
      else if m_term m <? r_term r then
        match m_type m with
        | MsgHeartbeat | MsgApp =>
            if r_check_quorum r || r_pre_vote r then
              do r <- send r (mkMsg MsgAppResp (m_from m) 0 0 0 0 [] 0 0 None false 0 []); Ok (r, false)
            else Ok (r, false)
        | MsgPreVote =>
            do r <- send r (mkMsg MsgPreVoteResp (m_from m) 0 (r_term r) 0 0 [] 0 0 None true 0 []); Ok (r, false)
        | MsgStorageAppendResp =>
            match m_snapshot m with
            | Some s => do r <- applied_snap r s; Ok (r, false)
            | None => Ok (r, false)
            end
        | _ => Ok (r, false)
        end
      else Ok (r, true)).

(* MsgTransferLeader at a leader, naming the leader itself, while a transfer to another node is
   pending (the branch of stepLeader that aborts the pending transfer and returns) *)
Definition self_transfer_aborts (r : raft) (m : message) : bool :=
  match get_progress r (m_from m) with
  | Some pr =>
      negb (pr_is_learner pr) && negb (N.eqb (r_lead_transferee r) NoneId) &&
      negb (N.eqb (r_lead_transferee r) (m_from m)) && N.eqb (m_from m) (r_id r)
  | None => false
  end.

(* MsgTransferLeader: the role's handler; at a leader, when the request names the leader itself while
   another transfer is pending, that one is aborted and the automatic leave of a joint
   configuration is retried (appliedTo with the current applied index) *)
Definition step_transfer_leader (r : raft) (m : message) : res (raft * err) :=
  do x <- match r_state r with
          | StateFollower => step_follower r m
          | StateCandidate | StatePreCandidate => step_candidate r m
          | StateLeader => step_leader r m
          end;
  if state_type_eqb (r_state r) StateLeader && self_transfer_aborts r m
  then do r2 <- applied_to (fst x) (l_applied (r_log (fst x))) 0; Ok (r2, snd x)
  else Ok x.

(* the type switch of Step *)
Definition step_dispatch (r : raft) (m : message) : res (raft * err) :=
      match m_type m with
      | MsgHup =>
          do r <- hup r (if r_pre_vote r then CampaignPreElection else CampaignElection); Ok (r, ENone)
      | MsgStorageAppendResp =>
          let r := if negb (N.eqb (m_index m) 0)
                   then set_r_log r (l_stable_to (r_log r) (m_index m) (m_logterm m)) else r in
          match m_snapshot m with
          | Some s => do r <- applied_snap r s; Ok (r, ENone)
          | None => Ok (r, ENone)
          end
      | MsgStorageApplyResp =>
          match last_opt (m_entries m) with
          | Some e =>
              do r <- applied_to r (e_index e) (ents_size (m_entries m));
              (* only the entries of the leader's own term were counted (F14 repair) *)
              Ok (reduce_uncommitted_size r
                    (payloads_size (filter (fun x => N.eqb (e_term x) (r_term r)) (m_entries m))), ENone)
          | None => Ok (r, ENone)
          end
      | MsgVote | MsgPreVote =>
          let isPre := match m_type m with MsgPreVote => true | _ => false end in
          let canVote := N.eqb (r_vote r) (m_from m) ||
                         (N.eqb (r_vote r) NoneId && N.eqb (r_lead r) NoneId) ||
                         (isPre && (r_term r <? m_term m)) in
          do utd <- l_is_up_to_date st (r_log r) (m_logterm m) (m_index m);
          let respT := if isPre then MsgPreVoteResp else MsgVoteResp in
          if canVote && utd then
            do r <- send r (mkMsg respT (m_from m) 0 (m_term m) 0 0 [] 0 0 None false 0 []);
            if isPre then Ok (r, ENone)
            else Ok (set_r_vote (set_r_election_elapsed r 0) (m_from m), ENone)
          else
            do r <- send r (mkMsg respT (m_from m) 0 (r_term r) 0 0 [] 0 0 None true 0 []);
            Ok (r, ENone)
      | MsgTransferLeader => step_transfer_leader r m
      | _ =>
          match r_state r with
          | StateFollower => step_follower r m
          | StateCandidate | StatePreCandidate => step_candidate r m
          | StateLeader => step_leader r m
          end
      end.

Definition step_gen (r : raft) (m : message) : res (raft * err) :=
  do pre <- step_preamble r m;
  let '(r, cont) := pre in
  if negb cont then Ok (r, ENone) else step_dispatch r m.
End StepGen.

(* The nested call only ever carries the leave-joint MsgProp, whose handling never reaches
   appliedTo again; two levels are therefore enough (proved in Proofs/RaftBasics.v). *)
Definition step_leaf (r : raft) (m : message) : res (raft * err) := Panic PUnreachable.
Definition step_inner : raft -> message -> res (raft * err) := step_gen step_leaf.
Definition step : raft -> message -> res (raft * err) := step_gen step_inner.

Definition applied_to_top := applied_to step_inner.

(* tickElection / tickHeartbeat / tick *)
Definition tick_election (r : raft) : res raft :=
  let r := set_r_election_elapsed r (r_election_elapsed r + 1) in
  if promotable r && (r_randomized_election_timeout r <=? r_election_elapsed r) then
    let r := set_r_election_elapsed r 0 in
    do x <- step r (set_from (msg0 MsgHup) (r_id r)); Ok (fst x)
  else Ok r.

Definition tick_heartbeat (r : raft) : res raft :=
  let r := set_r_heartbeat_elapsed r (r_heartbeat_elapsed r + 1) in
  let r := set_r_election_elapsed r (r_election_elapsed r + 1) in
  do r <- (if r_election_timeout r <=? r_election_elapsed r then
             let r := set_r_election_elapsed r 0 in
             do r <- (if r_check_quorum r
                      then do x <- step r (set_from (msg0 MsgCheckQuorum) (r_id r)); Ok (fst x)
                      else Ok r);
             if state_type_eqb (r_state r) StateLeader && negb (N.eqb (r_lead_transferee r) NoneId)
             then
               (* abortLeaderTransfer, then the retry of the automatic leave of a joint
                  configuration (appliedTo with the current applied index) *)
               let r := set_r_lead_transferee r NoneId in
               applied_to_top r (l_applied (r_log r)) 0
             else Ok r
           else Ok r);
  if negb (state_type_eqb (r_state r) StateLeader) then Ok r else
  if r_heartbeat_timeout r <=? r_heartbeat_elapsed r then
    let r := set_r_heartbeat_elapsed r 0 in
    do x <- step r (set_from (msg0 MsgBeat) (r_id r)); Ok (fst x)
  else Ok r.

Definition tick (r : raft) : res raft :=
  match r_state r with
  | StateLeader => tick_heartbeat r
  | _ => tick_election r
  end.

End WithStorage.
