(* Log.v: executable model of log_unstable.go (unstable) and log.go (raftLog).
   raftLog reads through to Storage, which the application mutates between calls, so every
   function that the Go code lets touch l.storage takes the MemoryStorage value [st]. *)
From Coq Require Import List NArith Bool.
From RaftV Require Import Base Types Storage.
Import ListNotations.
Open Scope N_scope.

Record unstable := mkUnstable {
  u_snapshot : option snapshot;
  u_entries : list entry;
  u_offset : N;
  u_snapshot_in_progress : bool;
  u_offset_in_progress : N;
}.

Definition u_maybe_first_index (u : unstable) : option N :=
  match u_snapshot u with Some s => Some (s_index s + 1) | None => None end.

Definition u_maybe_last_index (u : unstable) : option N :=
  match u_entries u with
  | _ :: _ => Some (u_offset u + nlen (u_entries u) - 1)
  | [] => match u_snapshot u with Some s => Some (s_index s) | None => None end
  end.

Definition u_maybe_term (u : unstable) (i : N) : option N :=
  if i <? u_offset u then
    match u_snapshot u with
    | Some s => if N.eqb (s_index s) i then Some (s_term s) else None
    | None => None
    end
  else
    match u_maybe_last_index u with
    | None => None
    | Some last =>
        if last <? i then None else
        match nnth (i - u_offset u) (u_entries u) with
        | Some e => Some (e_term e)
        | None => None
        end
    end.

Definition u_next_entries (u : unstable) : list entry :=
  ndrop (sub64 (u_offset_in_progress u) (u_offset u)) (u_entries u).

Definition u_next_snapshot (u : unstable) : option snapshot :=
  if u_snapshot_in_progress u then None else u_snapshot u.

Definition u_accept_in_progress (u : unstable) : unstable :=
  let oip := match last_opt (u_entries u) with
             | Some e => e_index e + 1
             | None => u_offset_in_progress u end in
  let sip := match u_snapshot u with Some _ => true | None => u_snapshot_in_progress u end in
  mkUnstable (u_snapshot u) (u_entries u) (u_offset u) sip oip.

Definition u_stable_to (u : unstable) (index term : N) : unstable :=
  match u_maybe_term u index with
  | None => u
  | Some gt =>
      if index <? u_offset u then u else
      if negb (N.eqb gt term) then u else
      let num := index + 1 - u_offset u in
      let off := index + 1 in
      mkUnstable (u_snapshot u) (ndrop num (u_entries u)) off (u_snapshot_in_progress u)
                 (N.max (u_offset_in_progress u) off)
  end.

Definition u_stable_snap_to (u : unstable) (i : N) : unstable :=
  match u_snapshot u with
  | Some s => if N.eqb (s_index s) i
              then mkUnstable None (u_entries u) (u_offset u) false (u_offset_in_progress u)
              else u
  | None => u
  end.

Definition u_restore (s : snapshot) : unstable :=
  mkUnstable (Some s) [] (s_index s + 1) false (s_index s + 1).

(* unstable.slice with mustCheckOutOfBounds *)
Definition u_slice (u : unstable) (lo hi : N) : res (list entry) :=
  if hi <? lo then Panic PUnstableSliceOrder else
  let upper := u_offset u + nlen (u_entries u) in
  if (lo <? u_offset u) || (upper <? hi) then Panic PUnstableSliceBounds else
  Ok (ntake (hi - lo) (ndrop (lo - u_offset u) (u_entries u))).

Definition u_truncate_and_append (u : unstable) (ents : list entry) : res unstable :=
  match ents with
  | [] => Ok u   (* not reachable: callers pass non-empty slices (Go would index ents[0]) *)
  | e0 :: _ =>
      let fromIndex := e_index e0 in
      if N.eqb fromIndex (u_offset u + nlen (u_entries u)) then
        Ok (mkUnstable (u_snapshot u) (u_entries u ++ ents) (u_offset u)
                       (u_snapshot_in_progress u) (u_offset_in_progress u))
      else if fromIndex <=? u_offset u then
        Ok (mkUnstable (u_snapshot u) ents fromIndex (u_snapshot_in_progress u) fromIndex)
      else
        do keep <- u_slice u (u_offset u) fromIndex;
        Ok (mkUnstable (u_snapshot u) (keep ++ ents) (u_offset u) (u_snapshot_in_progress u)
                       (N.min (u_offset_in_progress u) fromIndex))
  end.

(* ---------- raftLog ---------- *)

Record raftlog := mkLog {
  l_unstable : unstable;
  l_committed : N;
  l_applying : N;
  l_applied : N;
  l_max_applying_size : N;
  l_applying_size : N;
  l_applying_paused : bool;
}.

Definition l_with_unstable (l : raftlog) (u : unstable) : raftlog :=
  mkLog u (l_committed l) (l_applying l) (l_applied l) (l_max_applying_size l)
        (l_applying_size l) (l_applying_paused l).
Definition l_with_committed (l : raftlog) (c : N) : raftlog :=
  mkLog (l_unstable l) c (l_applying l) (l_applied l) (l_max_applying_size l)
        (l_applying_size l) (l_applying_paused l).

(* newLogWithSize *)
Definition new_log (st : memstorage) (maxApplying : N) : raftlog :=
  let first := ms_first_index st in
  let last := ms_last_index st in
  mkLog (mkUnstable None [] (last + 1) false (last + 1))
        (first - 1) (first - 1) (first - 1) maxApplying 0 false.

Definition l_first_index (st : memstorage) (l : raftlog) : N :=
  match u_maybe_first_index (l_unstable l) with
  | Some i => i
  | None => ms_first_index st
  end.

Definition l_last_index (st : memstorage) (l : raftlog) : N :=
  match u_maybe_last_index (l_unstable l) with
  | Some i => i
  | None => ms_last_index st
  end.

(* term(i): value and error *)
Definition l_term (st : memstorage) (l : raftlog) (i : N) : N * err :=
  match u_maybe_term (l_unstable l) i with
  | Some t => (t, ENone)
  | None =>
      if i + 1 <? l_first_index st l then (0, ErrCompacted) else
      if l_last_index st l <? i then (0, ErrUnavailable) else
      ms_term st i
  end.

Definition l_zero_term (te : N * err) : N :=
  match snd te with ENone => fst te | _ => 0 end.

Definition l_match_term (st : memstorage) (l : raftlog) (index term : N) : bool :=
  match l_term st l index with
  | (t, ENone) => N.eqb t term
  | _ => false
  end.

Definition l_last_entry_id (st : memstorage) (l : raftlog) : res (N * N) :=  (* (term, index) *)
  let index := l_last_index st l in
  match l_term st l index with
  | (t, ENone) => Ok (t, index)
  | _ => Panic PLogLastTerm
  end.

Definition l_is_up_to_date (st : memstorage) (l : raftlog) (term index : N) : res bool :=
  do our <- l_last_entry_id st l;
  let '(ot, oi) := our in
  Ok ((ot <? term) || (N.eqb term ot && (oi <=? index))).

Fixpoint l_find_conflict (st : memstorage) (l : raftlog) (ents : list entry) : N :=
  match ents with
  | [] => 0
  | e :: rest => if l_match_term st l (e_index e) (e_term e) then l_find_conflict st l rest
                 else e_index e
  end.

(* findConflictByTerm: walks down from index; fuel = index+1 steps is enough *)
Fixpoint l_fcbt_loop (st : memstorage) (l : raftlog) (fuel : nat) (index term : N) : N * N :=
  match fuel with
  | O => (0, 0)
  | S f =>
      if N.eqb index 0 then (0, 0) else
      match l_term st l index with
      | (ourTerm, ENone) => if ourTerm <=? term then (index, ourTerm)
                            else l_fcbt_loop st l f (index - 1) term
      | _ => (index, 0)
      end
  end.
Definition l_find_conflict_by_term (st : memstorage) (l : raftlog) (index term : N) : N * N :=
  (* an index above the log fails in term() at once; below it, at most lastIndex steps *)
  l_fcbt_loop st l (S (N.to_nat (N.min index (l_last_index st l + 1)))) index term.

Definition l_commit_to (st : memstorage) (l : raftlog) (tocommit : N) : res raftlog :=
  if l_committed l <? tocommit then
    if l_last_index st l <? tocommit then Panic PLogToCommit
    else Ok (l_with_committed l tocommit)
  else Ok l.

(* raftLog.append *)
Definition l_append (st : memstorage) (l : raftlog) (ents : list entry) : res raftlog :=
  match ents with
  | [] => Ok l
  | e0 :: _ =>
      if sub64 (e_index e0) 1 <? l_committed l then Panic PLogAfterCommitted else
      do u <- u_truncate_and_append (l_unstable l) ents;
      Ok (l_with_unstable l u)
  end.

(* maybeAppend(prev index/term, entries, committed): (lastnewi, ok) *)
Definition l_maybe_append (st : memstorage) (l : raftlog) (prevIndex prevTerm : N)
           (ents : list entry) (committed : N) : res (raftlog * option N) :=
  if negb (l_match_term st l prevIndex prevTerm) then Ok (l, None) else
  let lastnewi := prevIndex + nlen ents in
  let ci := l_find_conflict st l ents in
  do l1 <- (if N.eqb ci 0 then Ok l
            else if ci <=? l_committed l then Panic PLogConflictCommitted
            else
              let offset := prevIndex + 1 in
              if nlen ents <? sub64 ci offset then Panic PLogAppendRange
              else l_append st l (ndrop (ci - offset) ents));
  do l2 <- l_commit_to st l1 (N.min committed lastnewi);
  Ok (l2, Some lastnewi).

Definition l_has_next_or_in_progress_snapshot (l : raftlog) : bool :=
  match u_snapshot (l_unstable l) with Some _ => true | None => false end.

Definition l_max_appliable (l : raftlog) (allowUnstable : bool) : N :=
  if allowUnstable then l_committed l
  else N.min (l_committed l) (sub64 (u_offset (l_unstable l)) 1).

Definition l_must_check_out_of_bounds (st : memstorage) (l : raftlog) (lo hi : N) : res err :=
  if hi <? lo then Panic PLogSliceOrder else
  let fi := l_first_index st l in
  if lo <? fi then Ok ErrCompacted else
  (* length := lastIndex + 1 - fi ; hi > fi + length *)
  if l_last_index st l + 1 <? hi then Panic PLogSliceBounds else Ok ENone.

(* slice(lo, hi, maxSize) *)
Definition l_slice (st : memstorage) (l : raftlog) (lo hi maxSize : N) : res (list entry * err) :=
  do e <- l_must_check_out_of_bounds st l lo hi;
  match e with
  | ENone =>
      if N.eqb lo hi then Ok ([], ENone) else
      let u := l_unstable l in
      if u_offset u <=? lo then
        do ents <- u_slice u lo hi;
        Ok (limit_size ents maxSize, ENone)
      else
        let cut := N.min hi (u_offset u) in
        do r <- ms_entries st lo cut maxSize;
        match r with
        | (_, ErrCompacted) => Ok ([], ErrCompacted)
        | (_, ErrUnavailable) => Panic PLogEntriesUnavailable
        | (ents, _) =>
            if hi <=? u_offset u then Ok (ents, ENone) else
            if nlen ents <? cut - lo then Ok (ents, ENone) else
            let size := ents_size ents in
            if maxSize <=? size then Ok (ents, ENone) else
            do us <- u_slice u (u_offset u) hi;
            let uns := limit_size us (maxSize - size) in
            if N.eqb (nlen uns) 1 && (maxSize <? size + ents_size uns) then Ok (ents, ENone)
            else Ok (ents ++ uns, ENone)
        end
  | other => Ok ([], other)
  end.

(* entries(i, maxSize) *)
Definition l_entries (st : memstorage) (l : raftlog) (i maxSize : N) : res (list entry * err) :=
  if l_last_index st l <? i then Ok ([], ENone)
  else l_slice st l i (l_last_index st l + 1) maxSize.

Definition l_has_next_committed_ents (l : raftlog) (allowUnstable : bool) : bool :=
  if l_applying_paused l then false else
  if l_has_next_or_in_progress_snapshot l then false else
  (l_applying l + 1 <? l_max_appliable l allowUnstable + 1).

Definition l_next_committed_ents (st : memstorage) (l : raftlog) (allowUnstable : bool) : res (list entry) :=
  if l_applying_paused l then Ok [] else
  if l_has_next_or_in_progress_snapshot l then Ok [] else
  let lo := l_applying l + 1 in
  let hi := l_max_appliable l allowUnstable + 1 in
  if hi <=? lo then Ok [] else
  (* maxSize := max - size on uint64; "<= 0" is "== 0" there *)
  let maxSize := sub64 (l_max_applying_size l) (l_applying_size l) in
  if N.eqb maxSize 0 then Panic PLogApplyingSize else
  do r <- l_slice st l lo hi maxSize;
  match r with
  | (ents, ENone) => Ok ents
  | _ => Panic PLogSliceErr
  end.

Definition l_applied_to (l : raftlog) (i size : N) : res raftlog :=
  if (l_committed l <? i) || (i <? l_applied l) then Panic PLogApplied else
  let asz := if size <? l_applying_size l then l_applying_size l - size else 0 in
  Ok (mkLog (l_unstable l) (l_committed l) (N.max (l_applying l) i) i (l_max_applying_size l)
            asz (l_max_applying_size l <=? asz)).

Definition l_accept_applying (l : raftlog) (i size : N) (allowUnstable : bool) : res raftlog :=
  if l_committed l <? i then Panic PLogApplying else
  let asz := l_applying_size l + size in
  Ok (mkLog (l_unstable l) (l_committed l) i (l_applied l) (l_max_applying_size l) asz
            ((l_max_applying_size l <=? asz) || (i <? l_max_appliable l allowUnstable))).

Definition l_stable_to (l : raftlog) (index term : N) : raftlog :=
  l_with_unstable l (u_stable_to (l_unstable l) index term).
Definition l_stable_snap_to (l : raftlog) (i : N) : raftlog :=
  l_with_unstable l (u_stable_snap_to (l_unstable l) i).
Definition l_accept_unstable (l : raftlog) : raftlog :=
  l_with_unstable l (u_accept_in_progress (l_unstable l)).

Definition l_has_next_unstable_ents (l : raftlog) : bool :=
  match u_next_entries (l_unstable l) with [] => false | _ => true end.
Definition l_has_next_or_in_progress_unstable_ents (l : raftlog) : bool :=
  match u_entries (l_unstable l) with [] => false | _ => true end.

(* snapshot(): the pending one, else storage's *)
Definition l_snapshot (st : memstorage) (l : raftlog) : snapshot :=
  match u_snapshot (l_unstable l) with
  | Some s => s
  | None => ms_get_snapshot st
  end.

(* maybeCommit(at) *)
Definition l_maybe_commit (st : memstorage) (l : raftlog) (term index : N) : res (raftlog * bool) :=
  if negb (N.eqb term 0) && (l_committed l <? index) && l_match_term st l index term then
    do l' <- l_commit_to st l index; Ok (l', true)
  else Ok (l, false).

(* restore(s) *)
Definition l_restore (l : raftlog) (s : snapshot) : raftlog :=
  mkLog (u_restore s) (s_index s) (l_applying l) (l_applied l) (l_max_applying_size l)
        (l_applying_size l) (l_applying_paused l).

(* scan(lo, hi, pageSize, visitor): does some entry in [lo,hi) satisfy f?  (the visitor of
   hasUnappliedConfChanges); fuel = hi - lo pages at most *)
Fixpoint l_scan_exists (st : memstorage) (l : raftlog) (fuel : nat) (lo hi pageSize : N)
         (f : entry -> bool) : res bool :=
  match fuel with
  | O => if lo <? hi then Panic POutOfFuel else Ok false
  | S fu =>
      if negb (lo <? hi) then Ok false else
      do r <- l_slice st l lo hi pageSize;
      match r with
      | (ents, ENone) =>
          match ents with
          | [] => Panic PLogScan
          | _ => if existsb f ents then Ok true
                 else l_scan_exists st l fu (lo + nlen ents) hi pageSize f
          end
      | _ => Panic PLogScan
      end
  end.
