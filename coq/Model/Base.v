(* Base.v: shared executable helpers for the model (no proofs here).
   Numbers are N (unbounded binary naturals); Go's uint64 wrap-around is written
   explicitly with [sub64] at the sites where the code relies on or guards it. *)
From Coq Require Export List NArith Bool.
Export ListNotations.
Open Scope N_scope.

Definition maxU64 : N := 18446744073709551615.
Definition two64 : N := 18446744073709551616.

(* Go: a - b on uint64 *)
Definition sub64 (a b : N) : N := (a + two64 - b) mod two64.

(* association lists keyed by N; first binding wins *)
Fixpoint alookup {A} (m : list (N * A)) (k : N) : option A :=
  match m with
  | [] => None
  | (k', v) :: m' => if N.eqb k k' then Some v else alookup m' k
  end.

Fixpoint aremove {A} (m : list (N * A)) (k : N) : list (N * A) :=
  match m with
  | [] => []
  | (k', v) :: m' => if N.eqb k k' then aremove m' k else (k', v) :: aremove m' k
  end.

(* insert keeping the list sorted by key and duplicate free (replaces) *)
Fixpoint ainsert {A} (m : list (N * A)) (k : N) (v : A) : list (N * A) :=
  match m with
  | [] => [(k, v)]
  | (k', v') :: m' =>
      if N.eqb k k' then (k, v) :: m'
      else if N.ltb k k' then (k, v) :: (k', v') :: m'
      else (k', v') :: ainsert m' k v
  end.

Definition akeys {A} (m : list (N * A)) : list N := map fst m.

Definition amem {A} (m : list (N * A)) (k : N) : bool :=
  match alookup m k with Some _ => true | None => false end.

(* sets of ids as sorted duplicate-free lists *)
Fixpoint smem (s : list N) (k : N) : bool :=
  match s with
  | [] => false
  | x :: s' => if N.eqb k x then true else smem s' k
  end.

Fixpoint sinsert (s : list N) (k : N) : list N :=
  match s with
  | [] => [k]
  | x :: s' =>
      if N.eqb k x then s
      else if N.ltb k x then k :: s
      else x :: sinsert s' k
  end.

Fixpoint sremove (s : list N) (k : N) : list N :=
  match s with
  | [] => []
  | x :: s' => if N.eqb k x then sremove s' k else x :: sremove s' k
  end.

Definition sunion (a b : list N) : list N := fold_left sinsert b a.

Definition nlen {A} (l : list A) : N := N.of_nat (length l).

Fixpoint list_eqb {A} (eqb : A -> A -> bool) (a b : list A) : bool :=
  match a, b with
  | [], [] => true
  | x :: a', y :: b' => eqb x y && list_eqb eqb a' b'
  | _, _ => false
  end.

Definition option_eqb {A} (eqb : A -> A -> bool) (a b : option A) : bool :=
  match a, b with
  | None, None => true
  | Some x, Some y => eqb x y
  | _, _ => false
  end.
