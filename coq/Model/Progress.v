(* Progress.v: executable model of tracker/inflights.go and tracker/progress.go.
   The ring buffer of Inflights is modelled literally (start, count, bytes, size, maxBytes,
   buffer with its current capacity). *)
From Coq Require Import List NArith Bool.
From RaftV Require Import Base Types.
Import ListNotations.
Open Scope N_scope.

Record inflights := mkInfl {
  in_start : N;
  in_count : N;
  in_bytes : N;
  in_size : N;       (* max number of inflight messages *)
  in_maxbytes : N;   (* 0 = no limit *)
  in_buffer : list (N * N);  (* (index, bytes); length = current capacity *)
}.

Definition new_inflights (size maxBytes : N) : inflights := mkInfl 0 0 0 size maxBytes [].

Definition infl_full (i : inflights) : bool :=
  N.eqb (in_count i) (in_size i) ||
  (negb (N.eqb (in_maxbytes i) 0) && (in_maxbytes i <=? in_bytes i)).

Definition infl_count (i : inflights) : N := in_count i.

(* grow: double the buffer (0 -> 1), capped at size; new slots are zero *)
Definition infl_grow (i : inflights) : inflights :=
  let len := nlen (in_buffer i) in
  let ns := len * 2 in
  let ns := if N.eqb ns 0 then 1 else if in_size i <? ns then in_size i else ns in
  let buf := in_buffer i ++ repeat (0, 0) (N.to_nat (ns - len)) in
  mkInfl (in_start i) (in_count i) (in_bytes i) (in_size i) (in_maxbytes i) buf.

Fixpoint list_set {A} (l : list A) (n : nat) (x : A) : list A :=
  match l, n with
  | [], _ => []
  | _ :: t, O => x :: t
  | h :: t, S n' => h :: list_set t n' x
  end.

Definition infl_add (i : inflights) (index bytes : N) : res inflights :=
  if infl_full i then Panic PInflightsAddFull else
  let next := in_start i + in_count i in
  let next := if in_size i <=? next then next - in_size i else next in
  let i := if nlen (in_buffer i) <=? next then infl_grow i else i in
  Ok (mkInfl (in_start i) (in_count i + 1) (in_bytes i + bytes) (in_size i) (in_maxbytes i)
             (list_set (in_buffer i) (N.to_nat next) (index, bytes))).

Definition buf_at (i : inflights) (idx : N) : N * N :=
  nth (N.to_nat idx) (in_buffer i) (0, 0).

(* the loop of FreeLE: [n] iterations left, [k] freed so far, [idx] ring position *)
Fixpoint free_loop (i : inflights) (to : N) (n : nat) (idx k bytes : N) : N * N * N :=
  match n with
  | O => (idx, k, bytes)
  | S n' =>
      if to <? fst (buf_at i idx) then (idx, k, bytes)
      else
        let bytes := bytes + snd (buf_at i idx) in
        let idx := idx + 1 in
        let idx := if in_size i <=? idx then idx - in_size i else idx in
        free_loop i to n' idx (k + 1) bytes
  end.

Definition infl_free_le (i : inflights) (to : N) : inflights :=
  if N.eqb (in_count i) 0 || (to <? fst (buf_at i (in_start i))) then i else
  let '(idx, k, bytes) := free_loop i to (N.to_nat (in_count i)) (in_start i) 0 0 in
  let count := in_count i - k in
  let start := if N.eqb count 0 then 0 else idx in
  mkInfl start count (in_bytes i - bytes) (in_size i) (in_maxbytes i) (in_buffer i).

Definition infl_reset (i : inflights) : inflights :=
  mkInfl 0 0 0 (in_size i) (in_maxbytes i) (in_buffer i).

(* the live window, oldest first (for observation and for the abstract view) *)
Fixpoint infl_window_loop (i : inflights) (n : nat) (idx : N) : list (N * N) :=
  match n with
  | O => []
  | S n' =>
      let idx' := idx + 1 in
      let idx' := if in_size i <=? idx' then idx' - in_size i else idx' in
      buf_at i idx :: infl_window_loop i n' idx'
  end.
Definition infl_window (i : inflights) : list (N * N) :=
  infl_window_loop i (N.to_nat (in_count i)) (in_start i).

(* ---------- Progress ---------- *)

Inductive pr_state := StateProbe | StateReplicate | StateSnapshot.
Definition pr_state_eqb (a b : pr_state) : bool :=
  match a, b with
  | StateProbe, StateProbe | StateReplicate, StateReplicate | StateSnapshot, StateSnapshot => true
  | _, _ => false
  end.

Record progress := mkPr {
  pr_match : N;
  pr_next : N;
  pr_sent_commit : N;
  pr_state_ : pr_state;
  pr_pending_snapshot : N;
  pr_recent_active : bool;
  pr_paused : bool;          (* MsgAppFlowPaused *)
  pr_inflights : inflights;
  pr_is_learner : bool;
}.

Definition pr_with_inflights (p : progress) (i : inflights) : progress :=
  mkPr (pr_match p) (pr_next p) (pr_sent_commit p) (pr_state_ p) (pr_pending_snapshot p)
       (pr_recent_active p) (pr_paused p) i (pr_is_learner p).
Definition pr_with_recent_active (p : progress) (b : bool) : progress :=
  mkPr (pr_match p) (pr_next p) (pr_sent_commit p) (pr_state_ p) (pr_pending_snapshot p)
       b (pr_paused p) (pr_inflights p) (pr_is_learner p).
Definition pr_with_paused (p : progress) (b : bool) : progress :=
  mkPr (pr_match p) (pr_next p) (pr_sent_commit p) (pr_state_ p) (pr_pending_snapshot p)
       (pr_recent_active p) b (pr_inflights p) (pr_is_learner p).
Definition pr_with_is_learner (p : progress) (b : bool) : progress :=
  mkPr (pr_match p) (pr_next p) (pr_sent_commit p) (pr_state_ p) (pr_pending_snapshot p)
       (pr_recent_active p) (pr_paused p) (pr_inflights p) b.
Definition pr_with_pending_snapshot (p : progress) (x : N) : progress :=
  mkPr (pr_match p) (pr_next p) (pr_sent_commit p) (pr_state_ p) x
       (pr_recent_active p) (pr_paused p) (pr_inflights p) (pr_is_learner p).
Definition pr_with_next_sc (p : progress) (next sc : N) : progress :=
  mkPr (pr_match p) next sc (pr_state_ p) (pr_pending_snapshot p)
       (pr_recent_active p) (pr_paused p) (pr_inflights p) (pr_is_learner p).

(* ResetState *)
Definition pr_reset_state (p : progress) (s : pr_state) : progress :=
  mkPr (pr_match p) (pr_next p) (pr_sent_commit p) s 0 (pr_recent_active p) false
       (infl_reset (pr_inflights p)) (pr_is_learner p).

(* Next-1 on uint64 (Next >= 1 is an invariant; the wrap is what Go would do) *)
Definition pr_prev (next : N) : N := sub64 next 1.

Definition pr_become_probe (p : progress) : progress :=
  let p' :=
    if pr_state_eqb (pr_state_ p) StateSnapshot then
      let ps := pr_pending_snapshot p in
      let q := pr_reset_state p StateProbe in
      pr_with_next_sc q (N.max (pr_match q + 1) (ps + 1)) (pr_sent_commit q)
    else
      let q := pr_reset_state p StateProbe in
      pr_with_next_sc q (pr_match q + 1) (pr_sent_commit q) in
  pr_with_next_sc p' (pr_next p') (N.min (pr_sent_commit p') (pr_prev (pr_next p'))).

Definition pr_become_replicate (p : progress) : progress :=
  let q := pr_reset_state p StateReplicate in
  pr_with_next_sc q (pr_match q + 1) (pr_sent_commit q).

Definition pr_become_snapshot (p : progress) (snapshoti : N) : progress :=
  let q := pr_reset_state p StateSnapshot in
  pr_with_next_sc (pr_with_pending_snapshot q snapshoti) (snapshoti + 1) snapshoti.

Definition pr_sent_entries (p : progress) (entries bytes : N) : res progress :=
  match pr_state_ p with
  | StateReplicate =>
      do p1 <- (if 0 <? entries then
                  let next := pr_next p + entries in
                  do infl <- infl_add (pr_inflights p) (next - 1) bytes;
                  Ok (pr_with_inflights (pr_with_next_sc p next (pr_sent_commit p)) infl)
                else Ok p);
      Ok (pr_with_paused p1 (infl_full (pr_inflights p1)))
  | StateProbe => Ok (if 0 <? entries then pr_with_paused p true else p)
  | StateSnapshot => Panic PSentEntriesState
  end.

Definition pr_can_bump_commit (p : progress) (index : N) : bool :=
  (pr_sent_commit p <? index) && (pr_sent_commit p <? pr_prev (pr_next p)).

Definition pr_set_sent_commit (p : progress) (commit : N) : progress :=
  pr_with_next_sc p (pr_next p) commit.

Definition pr_maybe_update (p : progress) (n : N) : progress * bool :=
  if n <=? pr_match p then (p, false) else
  (mkPr n (N.max (pr_next p) (n + 1)) (pr_sent_commit p) (pr_state_ p) (pr_pending_snapshot p)
        (pr_recent_active p) false (pr_inflights p) (pr_is_learner p), true).

Definition pr_maybe_decr_to (p : progress) (rejected matchHint : N) : progress * bool :=
  if pr_state_eqb (pr_state_ p) StateReplicate then
    if rejected <=? pr_match p then (p, false) else
    let next := pr_match p + 1 in
    (pr_with_next_sc p next (N.min (pr_sent_commit p) (pr_prev next)), true)
  else
    if negb (N.eqb (pr_prev (pr_next p)) rejected) then (p, false) else
    let next := N.max (N.min rejected (matchHint + 1)) (pr_match p + 1) in
    (pr_with_paused (pr_with_next_sc p next (N.min (pr_sent_commit p) (pr_prev next))) false, true).

Definition pr_is_paused (p : progress) : bool :=
  match pr_state_ p with
  | StateProbe => pr_paused p
  | StateReplicate => pr_paused p
  | StateSnapshot => true
  end.
