(* Quorum.v: executable model of /repo/quorum (majority.go, joint.go).
   Mirrors: MajorityConfig.CommittedIndex / VoteResult / Slice,
            JointConfig.CommittedIndex / VoteResult / IDs. *)
From Coq Require Import List Arith NArith Bool Sorting.Mergesort Orders.
From RaftV Require Import Base.
Open Scope N_scope.

Module NOrder <: TotalLeBool.
  Definition t := N.
  Definition leb := N.leb.
  Theorem leb_total : forall a1 a2, leb a1 a2 = true \/ leb a2 a1 = true.
  Proof.
    intros a1 a2. unfold leb.
    destruct (N.leb_spec a1 a2); [left; reflexivity|right].
    apply N.leb_le. apply N.lt_le_incl. assumption.
  Qed.
End NOrder.
Module NSort := Sort NOrder.

(* slices.Sort on []uint64 *)
Definition sortN (l : list N) : list N := NSort.sort l.

(* MajorityConfig.Slice: the ids, sorted *)
Definition majority_slice (vs : list N) : list N := sortN vs.

(* l.AckedIndex(id): missing ids leave the zero the Go code pre-filled *)
Definition ack_or_zero (ack : list (N * N)) (id : N) : N :=
  match alookup ack id with Some i => i | None => 0 end.

(* MajorityConfig.CommittedIndex.
   Go fills [srt] from the back with the found indexes (the front stays 0) and
   sorts; the sorted slice is the sort of "value or 0" per voter. *)
Definition majority_committed (vs : list N) (ack : list (N * N)) : N :=
  match vs with
  | [] => maxU64
  | _ =>
      let n := length vs in
      let srt := sortN (map (ack_or_zero ack) vs) in
      nth (n - (n / 2 + 1))%nat srt 0
  end.

Inductive vote_result := VotePending | VoteLost | VoteWon.

Definition vote_result_eqb (a b : vote_result) : bool :=
  match a, b with
  | VotePending, VotePending | VoteLost, VoteLost | VoteWon, VoteWon => true
  | _, _ => false
  end.

Definition count_yes (vs : list N) (votes : list (N * bool)) : nat :=
  length (filter (fun id => match alookup votes id with Some true => true | _ => false end) vs).
Definition count_missing (vs : list N) (votes : list (N * bool)) : nat :=
  length (filter (fun id => match alookup votes id with None => true | _ => false end) vs).

(* MajorityConfig.VoteResult *)
Definition majority_vote (vs : list N) (votes : list (N * bool)) : vote_result :=
  match vs with
  | [] => VoteWon
  | _ =>
      let q := (length vs / 2 + 1)%nat in
      let y := count_yes vs votes in
      let m := count_missing vs votes in
      if Nat.leb q y then VoteWon
      else if Nat.leb q (y + m) then VotePending
      else VoteLost
  end.

(* JointConfig.CommittedIndex *)
Definition joint_committed (c0 c1 : list N) (ack : list (N * N)) : N :=
  let i0 := majority_committed c0 ack in
  let i1 := majority_committed c1 ack in
  if N.ltb i0 i1 then i0 else i1.

(* JointConfig.VoteResult *)
Definition joint_vote (c0 c1 : list N) (votes : list (N * bool)) : vote_result :=
  let r1 := majority_vote c0 votes in
  let r2 := majority_vote c1 votes in
  if vote_result_eqb r1 r2 then r1
  else match r1, r2 with
       | VoteLost, _ | _, VoteLost => VoteLost
       | _, _ => VotePending
       end.

(* JointConfig.IDs: union as a sorted duplicate-free list *)
Definition joint_ids (c0 c1 : list N) : list N := sunion (sunion [] c0) c1.
