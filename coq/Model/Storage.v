(* Storage.v: executable model of storage.go MemoryStorage and of util.go limitSize. *)
From Coq Require Import List NArith Bool.
From RaftV Require Import Base Types.
Import ListNotations.
Open Scope N_scope.

(* limitSize: a non-empty prefix; the size budget may be exceeded by the first entry only *)
Fixpoint limit_loop (acc : list entry) (size : N) (rest : list entry) (maxSize : N) : list entry :=
  match rest with
  | [] => rev acc
  | e :: rest' =>
      let size' := size + entry_size e in
      if maxSize <? size' then rev acc else limit_loop (e :: acc) size' rest' maxSize
  end.

Definition limit_size (ents : list entry) (maxSize : N) : list entry :=
  match ents with
  | [] => []
  | e :: rest => limit_loop [e] (entry_size e) rest maxSize
  end.

(* MemoryStorage: ents[0] is the dummy entry (index, term of the compaction point). *)
Record memstorage := mkMS {
  ms_hardstate : option hardstate;  (* nil until SetHardState *)
  ms_snapshot : snapshot;
  ms_dummy_index : N;
  ms_dummy_term : N;
  ms_ents : list entry;   (* the entries after the dummy, contiguous from dummy_index+1 *)
}.

Definition new_memstorage : memstorage := mkMS None empty_snapshot 0 0 [].

Definition ms_with_ents (s : memstorage) (di dt : N) (ents : list entry) : memstorage :=
  mkMS (ms_hardstate s) (ms_snapshot s) di dt ents.

Definition ms_last_index (s : memstorage) : N := ms_dummy_index s + nlen (ms_ents s).
Definition ms_first_index (s : memstorage) : N := ms_dummy_index s + 1.

(* InitialState *)
Definition ms_initial_state (s : memstorage) : option hardstate * confstate :=
  (ms_hardstate s, s_conf (ms_snapshot s)).

Definition ms_set_hardstate (s : memstorage) (h : hardstate) : memstorage :=
  mkMS (Some h) (ms_snapshot s) (ms_dummy_index s) (ms_dummy_term s) (ms_ents s).

(* Entries(lo, hi, maxSize) *)
Definition ms_entries (s : memstorage) (lo hi maxSize : N) : res (list entry * err) :=
  let offset := ms_dummy_index s in
  if lo <=? offset then Ok ([], ErrCompacted) else
  if ms_last_index s + 1 <? hi then Panic PStorageEntriesHi else
  if hi <? lo then Panic PStorageSliceBounds else
  match ms_ents s with
  | [] => Ok ([], ErrUnavailable)
  | _ =>
      (* ms.ents[lo-offset : hi-offset], position 0 being the dummy *)
      let sl := ntake (hi - lo) (ndrop (lo - offset - 1) (ms_ents s)) in
      Ok (limit_size sl maxSize, ENone)
  end.

(* Term(i) *)
Definition ms_term (s : memstorage) (i : N) : N * err :=
  let offset := ms_dummy_index s in
  if i <? offset then (0, ErrCompacted) else
  if nlen (ms_ents s) + 1 <=? i - offset then (0, ErrUnavailable) else
  if N.eqb i offset then (ms_dummy_term s, ENone) else
  match nnth (i - offset - 1) (ms_ents s) with
  | Some e => (e_term e, ENone)
  | None => (0, ErrUnavailable)
  end.

Definition ms_get_snapshot (s : memstorage) : snapshot := ms_snapshot s.

(* ApplySnapshot *)
Definition ms_apply_snapshot (s : memstorage) (snap : snapshot) : memstorage * err :=
  let msIndex := s_index (ms_snapshot s) in
  if negb (N.eqb msIndex 0) && (s_index snap <=? msIndex) then (s, ErrSnapOutOfDate) else
  (mkMS (ms_hardstate s) snap (s_index snap) (s_term snap) [], ENone).

(* CreateSnapshot(i, cs, data); cs = None models a nil ConfState *)
Definition ms_create_snapshot (s : memstorage) (i : N) (cs : option confstate) (data : bytes)
  : res (memstorage * option snapshot * err) :=
  if i <=? s_index (ms_snapshot s) then Ok (s, None, ErrSnapOutOfDate) else
  if ms_last_index s <? i then Panic PStorageSnapOutOfBound else
  if i <? ms_dummy_index s then Panic PStorageSliceBounds else
  let term := fst (ms_term s i) in
  let conf := match cs with Some c => c | None => s_conf (ms_snapshot s) end in
  let snap := mkSnapshot i term conf data in
  Ok (mkMS (ms_hardstate s) snap (ms_dummy_index s) (ms_dummy_term s) (ms_ents s), Some snap, ENone).

(* Compact *)
Definition ms_compact (s : memstorage) (ci : N) : res (memstorage * err) :=
  let offset := ms_dummy_index s in
  if ci <=? offset then Ok (s, ErrCompacted) else
  if ms_last_index s <? ci then Panic PStorageCompactOutOfBound else
  let i := ci - offset in
  let term := fst (ms_term s ci) in
  Ok (ms_with_ents s ci term (ndrop i (ms_ents s)), ENone).

(* Append *)
Definition ms_append (s : memstorage) (entries : list entry) : res memstorage :=
  match entries with
  | [] => Ok s
  | e0 :: _ =>
      let first := ms_first_index s in
      let last := e_index e0 + nlen entries - 1 in
      if last <? first then Ok s else
      let entries := if e_index e0 <? first then ndrop (first - e_index e0) entries else entries in
      match entries with
      | [] => Ok s
      | f0 :: _ =>
          (* offset relative to the dummy; position 0 is the dummy *)
          let offset := e_index f0 - ms_dummy_index s in
          let len := nlen (ms_ents s) + 1 in
          if offset <? len then
            Ok (ms_with_ents s (ms_dummy_index s) (ms_dummy_term s) (ntake (offset - 1) (ms_ents s) ++ entries))
          else if N.eqb len offset then
            Ok (ms_with_ents s (ms_dummy_index s) (ms_dummy_term s) (ms_ents s ++ entries))
          else Panic PStorageAppendGap
      end
  end.
