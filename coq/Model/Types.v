(* Types.v: data carried by the model: entries, snapshots, messages, hard/soft state,
   results with explicit panic sites.  Mirrors raftpb (raft.proto) as far as raft reads it. *)
From Coq Require Import List NArith Bool.
From RaftV Require Import Base.
Import ListNotations.
Open Scope N_scope.

Definition bytes := list N.   (* each element < 256 *)

Inductive entry_type := EntryNormal | EntryConfChange | EntryConfChangeV2.

Definition entry_type_eqb (a b : entry_type) : bool :=
  match a, b with
  | EntryNormal, EntryNormal | EntryConfChange, EntryConfChange
  | EntryConfChangeV2, EntryConfChangeV2 => true
  | _, _ => false
  end.

(* e_has_type: the proto2 optional Type field is set (it then costs two bytes on the wire,
   which the size limits see).  Entries that live in a log always carry Term and Index.
   e_leave: for configuration-change entries, whether the payload decodes to a change list
   that is empty (decoded by Go's proto.Unmarshal and supplied with the entry; raft itself
   only asks this one question of the payload, in stepLeader). *)
Record entry := mkEntry {
  e_term : N;
  e_index : N;
  e_type : entry_type;
  e_has_type : bool;
  e_data : bytes;
  e_has_data : bool;   (* Data is non-nil (an empty non-nil slice still costs two bytes) *)
  e_leave : bool;
}.

Definition is_cc_type (t : entry_type) : bool :=
  match t with EntryNormal => false | _ => true end.

Definition bytes_eqb (a b : bytes) : bool := list_eqb N.eqb a b.

Definition entry_eqb (a b : entry) : bool :=
  N.eqb (e_term a) (e_term b) && N.eqb (e_index a) (e_index b) &&
  entry_type_eqb (e_type a) (e_type b) && Bool.eqb (e_has_type a) (e_has_type b) &&
  bytes_eqb (e_data a) (e_data b) && Bool.eqb (e_has_data a) (e_has_data b).

(* protobuf varint length of a uint64 *)
Definition varint_len (x : N) : N :=
  if x <? 128 then 1 else if x <? 16384 then 2 else if x <? 2097152 then 3
  else if x <? 268435456 then 4 else if x <? 34359738368 then 5
  else if x <? 4398046511104 then 6 else if x <? 562949953421312 then 7
  else if x <? 72057594037927936 then 8 else if x <? 9223372036854775808 then 9 else 10.

(* proto.Size of a raftpb.Entry whose Term and Index are set (all tags are one byte) *)
Definition entry_size (e : entry) : N :=
  1 + varint_len (e_term e) + (1 + varint_len (e_index e)) +
  (if e_has_type e then 2 else 0) +
  (if e_has_data e then 1 + varint_len (nlen (e_data e)) + nlen (e_data e) else 0).

Definition ents_size (es : list entry) : N := fold_left (fun s e => s + entry_size e) es 0.
Definition payload_size (e : entry) : N := nlen (e_data e).
Definition payloads_size (es : list entry) : N := fold_left (fun s e => s + payload_size e) es 0.

Record confstate := mkConfState {
  cs_voters : list N;
  cs_learners : list N;
  cs_voters_outgoing : list N;
  cs_learners_next : list N;
  cs_auto_leave : bool;
}.

Definition empty_confstate : confstate := mkConfState [] [] [] [] false.

Record snapshot := mkSnapshot {
  s_index : N;
  s_term : N;
  s_conf : confstate;
  s_data : bytes;
}.

Definition empty_snapshot : snapshot := mkSnapshot 0 0 empty_confstate [].

Inductive msg_type :=
| MsgHup | MsgBeat | MsgProp | MsgApp | MsgAppResp | MsgVote | MsgVoteResp | MsgSnap
| MsgHeartbeat | MsgHeartbeatResp | MsgUnreachable | MsgSnapStatus | MsgCheckQuorum
| MsgTransferLeader | MsgTimeoutNow | MsgReadIndex | MsgReadIndexResp | MsgPreVote
| MsgPreVoteResp | MsgStorageAppend | MsgStorageAppendResp | MsgStorageApply
| MsgStorageApplyResp | MsgForgetLeader.

Definition msg_type_num (t : msg_type) : N :=
  match t with
  | MsgHup => 0 | MsgBeat => 1 | MsgProp => 2 | MsgApp => 3 | MsgAppResp => 4 | MsgVote => 5
  | MsgVoteResp => 6 | MsgSnap => 7 | MsgHeartbeat => 8 | MsgHeartbeatResp => 9
  | MsgUnreachable => 10 | MsgSnapStatus => 11 | MsgCheckQuorum => 12
  | MsgTransferLeader => 13 | MsgTimeoutNow => 14 | MsgReadIndex => 15
  | MsgReadIndexResp => 16 | MsgPreVote => 17 | MsgPreVoteResp => 18
  | MsgStorageAppend => 19 | MsgStorageAppendResp => 20 | MsgStorageApply => 21
  | MsgStorageApplyResp => 22 | MsgForgetLeader => 23
  end.

Definition msg_type_eqb (a b : msg_type) : bool := N.eqb (msg_type_num a) (msg_type_num b).

(* One message record with the union of the fields Step reads.  Responses of storage
   messages are kept outside (see [ready]), so the record is not recursive. *)
Record message := mkMsg {
  m_type : msg_type;
  m_to : N;
  m_from : N;
  m_term : N;
  m_logterm : N;
  m_index : N;
  m_entries : list entry;
  m_commit : N;
  m_vote : N;
  m_snapshot : option snapshot;
  m_reject : bool;
  m_rejecthint : N;
  m_context : bytes;
}.

Definition msg0 (t : msg_type) : message :=
  mkMsg t 0 0 0 0 0 [] 0 0 None false 0 [].

Definition set_to (m : message) (x : N) : message :=
  mkMsg (m_type m) x (m_from m) (m_term m) (m_logterm m) (m_index m) (m_entries m) (m_commit m)
        (m_vote m) (m_snapshot m) (m_reject m) (m_rejecthint m) (m_context m).
Definition set_from (m : message) (x : N) : message :=
  mkMsg (m_type m) (m_to m) x (m_term m) (m_logterm m) (m_index m) (m_entries m) (m_commit m)
        (m_vote m) (m_snapshot m) (m_reject m) (m_rejecthint m) (m_context m).
Definition set_term (m : message) (x : N) : message :=
  mkMsg (m_type m) (m_to m) (m_from m) x (m_logterm m) (m_index m) (m_entries m) (m_commit m)
        (m_vote m) (m_snapshot m) (m_reject m) (m_rejecthint m) (m_context m).
Definition set_entries (m : message) (x : list entry) : message :=
  mkMsg (m_type m) (m_to m) (m_from m) (m_term m) (m_logterm m) (m_index m) x (m_commit m)
        (m_vote m) (m_snapshot m) (m_reject m) (m_rejecthint m) (m_context m).

Record hardstate := mkHS { hs_term : N; hs_vote : N; hs_commit : N }.
Definition hs_eqb (a b : hardstate) : bool :=
  N.eqb (hs_term a) (hs_term b) && N.eqb (hs_vote a) (hs_vote b) && N.eqb (hs_commit a) (hs_commit b).
Definition empty_hs : hardstate := mkHS 0 0 0.
Definition is_empty_hs (h : hardstate) : bool := hs_eqb h empty_hs.

Inductive state_type := StateFollower | StateCandidate | StateLeader | StatePreCandidate.
Definition state_type_eqb (a b : state_type) : bool :=
  match a, b with
  | StateFollower, StateFollower | StateCandidate, StateCandidate
  | StateLeader, StateLeader | StatePreCandidate, StatePreCandidate => true
  | _, _ => false
  end.

Record softstate := mkSS { ss_lead : N; ss_state : state_type }.
Definition ss_eqb (a b : softstate) : bool :=
  N.eqb (ss_lead a) (ss_lead b) && state_type_eqb (ss_state a) (ss_state b).

Record readstate := mkRS { rs_index : N; rs_ctx : bytes }.

(* raft.go constants *)
Definition NoneId : N := 0.
Definition LocalAppendThread : N := maxU64.
Definition LocalApplyThread : N := maxU64 - 1.
Definition noLimit : N := maxU64.

Definition is_local_msg (t : msg_type) : bool :=
  match t with
  | MsgHup | MsgBeat | MsgUnreachable | MsgSnapStatus | MsgCheckQuorum | MsgStorageAppend
  | MsgStorageAppendResp | MsgStorageApply | MsgStorageApplyResp => true
  | _ => false
  end.

Definition is_response_msg (t : msg_type) : bool :=
  match t with
  | MsgAppResp | MsgVoteResp | MsgHeartbeatResp | MsgUnreachable | MsgReadIndexResp
  | MsgPreVoteResp | MsgStorageAppendResp | MsgStorageApplyResp => true
  | _ => false
  end.

Definition is_local_target (id : N) : bool :=
  N.eqb id LocalAppendThread || N.eqb id LocalApplyThread.

(* Every Panicf / panic site of the modelled files is an explicit result. *)
Inductive panic_site :=
| PInflightsAddFull | PSentEntriesState | PIsPausedState
| PStorageEntriesHi | PStorageSliceBounds | PStorageSnapOutOfBound | PStorageCompactOutOfBound | PStorageAppendGap
| PUnstableSliceOrder | PUnstableSliceBounds
| PLogConflictCommitted | PLogAppendRange | PLogAfterCommitted | PLogApplyingSize
| PLogSliceErr | PLogToCommit | PLogApplied | PLogApplying | PLogLastTerm
| PLogSliceOrder | PLogSliceBounds | PLogEntriesUnavailable | PLogScan
| PSendTermUnset | PSendTermSet | PSendSelf | PNeedSnapshot
| PLeaderToCandidate | PLeaderToPreCandidate | PFollowerToLeader | PEmptyEntryDropped
| PEmptyProp | PRestoreConfig | PApplyConfChange | PLoadStateCommit | PConfigInvalid
| PConfStatesNotEquivalent | PTwoReadys | PAdvanceAsync | PReadOnlySlice | PReadOnlyCtx | PReadIndexEntries
| PUnknownTransition | PNilProgress | POutOfFuel | POutOfDraws | PUnreachable.

Inductive res (A : Type) :=
| Ok (a : A)
| Panic (site : panic_site).
Arguments Ok {A} a.
Arguments Panic {A} site.

Definition bind {A B} (x : res A) (f : A -> res B) : res B :=
  match x with Ok a => f a | Panic s => Panic s end.
Notation "'do' x <- e1 ; e2" := (bind e1 (fun x => e2))
  (at level 200, x pattern, e1 at level 100, e2 at level 200, right associativity).

(* errors returned (not panics) *)
Inductive err := ENone | ErrCompacted | ErrUnavailable | ErrSnapOutOfDate | ErrProposalDropped
               | ErrStepLocalMsg | ErrStepPeerNotFound | ErrOther.
Definition err_eqb (a b : err) : bool :=
  match a, b with
  | ENone, ENone | ErrCompacted, ErrCompacted | ErrUnavailable, ErrUnavailable
  | ErrSnapOutOfDate, ErrSnapOutOfDate | ErrProposalDropped, ErrProposalDropped
  | ErrStepLocalMsg, ErrStepLocalMsg | ErrStepPeerNotFound, ErrStepPeerNotFound
  | ErrOther, ErrOther => true
  | _, _ => false
  end.

(* list helpers used with index arithmetic on N *)
(* the comparisons keep N.to_nat away from huge (wrapped) arguments *)
Definition ndrop {A} (n : N) (l : list A) : list A :=
  if nlen l <=? n then [] else skipn (N.to_nat n) l.
Definition ntake {A} (n : N) (l : list A) : list A :=
  if nlen l <=? n then l else firstn (N.to_nat n) l.
Definition nnth {A} (n : N) (l : list A) : option A :=
  if nlen l <=? n then None else nth_error l (N.to_nat n).

Definition last_opt {A} (l : list A) : option A :=
  match rev l with [] => None | x :: _ => Some x end.
