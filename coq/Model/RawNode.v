(* RawNode.v: executable model of rawnode.go, bootstrap.go, Config.validate and newRaft,
   and the node-level step function [node_step] over every way the outside world touches
   one node: RawNode API calls, the storage writes of the application, restart. *)
From Coq Require Import List NArith Bool.
From RaftV Require Import Base Types Quorum Progress Tracker Storage Log Raft.
Import ListNotations.
Open Scope N_scope.

Record rconfig := mkCfg {
  cfg_id : N;
  cfg_election_tick : N;
  cfg_heartbeat_tick : N;
  cfg_applied : N;
  cfg_async : bool;
  cfg_max_size_per_msg : N;
  cfg_max_committed_size : N;
  cfg_max_uncommitted : N;
  cfg_max_inflight_msgs : N;
  cfg_max_inflight_bytes : N;
  cfg_check_quorum : bool;
  cfg_pre_vote : bool;
  cfg_read_only : readonly_option;
  cfg_disable_forwarding : bool;
  cfg_disable_cc_validation : bool;
  cfg_step_down_on_removal : bool;
}.

(* Config.validate: None = error (newRaft panics); otherwise the defaulted values
   (maxUncommitted, maxCommittedSizePerReady, maxInflightBytes) *)
Definition validate (c : rconfig) : option (N * N * N) :=
  if N.eqb (cfg_id c) NoneId || is_local_target (cfg_id c) then None else
  if N.eqb (cfg_heartbeat_tick c) 0 then None else
  if cfg_election_tick c <=? cfg_heartbeat_tick c then None else
  let mu := if N.eqb (cfg_max_uncommitted c) 0 then noLimit else cfg_max_uncommitted c in
  let mc := if N.eqb (cfg_max_committed_size c) 0 then N.max (cfg_max_size_per_msg c) 1 else cfg_max_committed_size c in
  if N.eqb (cfg_max_inflight_msgs c) 0 then None else
  if negb (N.eqb (cfg_max_inflight_bytes c) 0) && (cfg_max_inflight_bytes c <? cfg_max_size_per_msg c) then None else
  let mb := if N.eqb (cfg_max_inflight_bytes c) 0 then noLimit else cfg_max_inflight_bytes c in
  match cfg_read_only c, cfg_check_quorum c with
  | ReadOnlyLeaseBased, false => None
  | _, _ => Some (mu, mc, mb)
  end.

(* newRaft *)
Definition new_raft (st : memstorage) (c : rconfig) (draws : list N) : res raft :=
  match validate c with
  | None => Panic PConfigInvalid
  | Some (mu, mc, mb) =>
      let log := new_log st mc in
      let '(hs, cs) := ms_initial_state st in
      let trk := make_tracker (cfg_max_inflight_msgs c) mb in
      let r := mkRaft (cfg_id c) 0 0 [] log (cfg_max_size_per_msg c) mu trk StateFollower false [] []
                      NoneId NoneId 0 (cfg_disable_cc_validation c) 0 (new_readonly (cfg_read_only c))
                      0 0 (cfg_check_quorum c) (cfg_pre_vote c) (cfg_heartbeat_tick c)
                      (cfg_election_tick c) 0 (cfg_disable_forwarding c) (cfg_step_down_on_removal c)
                      [] draws in
      do last <- l_last_entry_id st log;
      match cc_restore trk (snd last) cs with
      | inr _ => Panic PRestoreConfig
      | inl (cfg, pm) =>
          do x <- switch_to_config st r cfg pm;
          if negb (confstate_equiv cs (snd x)) then Panic PConfStatesNotEquivalent else
          let r := fst x in
          do r <- (match hs with
                   | Some h => if is_empty_hs h then Ok r else load_state st r h
                   | None => Ok r
                   end);
          do r <- (if 0 <? cfg_applied c
                   then do l <- l_applied_to (r_log r) (cfg_applied c) 0; Ok (set_r_log r l)
                   else Ok r);
          become_follower st r (r_term r) NoneId
      end
  end.

Record storage_append := mkSA {
  sa_entries : list entry;
  sa_hs : option hardstate;
  sa_snapshot : option snapshot;
  sa_responses : list message;    (* msgsAfterAppend, then the MsgStorageAppendResp if any *)
}.

Record storage_apply := mkSAp {
  sap_entries : list entry;
  sap_response : message;          (* the MsgStorageApplyResp *)
}.

Record ready := mkReady {
  rd_soft : option softstate;
  rd_hard : option hardstate;
  rd_read_states : list readstate;
  rd_entries : list entry;
  rd_snapshot : option snapshot;
  rd_committed : list entry;
  rd_msgs : list message;
  rd_must_sync : bool;
  rd_append : option storage_append;
  rd_apply : option storage_apply;
}.

Record rawnode := mkRN {
  rn_raft : raft;
  rn_async : bool;
  rn_prev_soft : softstate;
  rn_prev_hard : hardstate;
  rn_steps_on_advance : list message;
}.

Definition rn_with_raft (rn : rawnode) (r : raft) : rawnode :=
  mkRN r (rn_async rn) (rn_prev_soft rn) (rn_prev_hard rn) (rn_steps_on_advance rn).

Definition new_rawnode (st : memstorage) (c : rconfig) (draws : list N) : res rawnode :=
  do r <- new_raft st c draws;
  Ok (mkRN r (cfg_async c) (soft_state r) (hard_state r) []).

Definition must_sync (h prev : hardstate) (entsnum : N) : bool :=
  negb (N.eqb entsnum 0) || negb (N.eqb (hs_vote h) (hs_vote prev)) || negb (N.eqb (hs_term h) (hs_term prev)).

Definition opt_hs_empty (h : option hardstate) : bool :=
  match h with Some x => is_empty_hs x | None => true end.
Definition opt_snap_empty (s : option snapshot) : bool :=
  match s with Some x => N.eqb (s_index x) 0 | None => true end.

Section WithStorage.
Variable st : memstorage.

(* newStorageAppendRespMsg *)
Definition storage_append_resp (r : raft) (snap : option snapshot) : res message :=
  do idt <- (if l_has_next_or_in_progress_unstable_ents (r_log r)
             then do last <- l_last_entry_id st (r_log r); Ok (snd last, fst last)
             else Ok (0, 0));
  Ok (mkMsg MsgStorageAppendResp (r_id r) LocalAppendThread (r_term r) (snd idt) (fst idt) [] 0 0
            (if opt_snap_empty snap then None else snap) false 0 []).

Definition need_storage_append_resp (r : raft) (snap : option snapshot) : bool :=
  l_has_next_or_in_progress_unstable_ents (r_log r) || negb (opt_snap_empty snap).

Definition storage_apply_resp (r : raft) (ents : list entry) : message :=
  mkMsg MsgStorageApplyResp (r_id r) LocalApplyThread 0 0 0 ents 0 0 None false 0 [].

(* readyWithoutAccept *)
Definition ready_without_accept (rn : rawnode) : res ready :=
  let r := rn_raft rn in
  let allowUnstable := negb (rn_async rn) in
  let ents := u_next_entries (l_unstable (r_log r)) in
  do cents <- l_next_committed_ents st (r_log r) allowUnstable;
  let soft := if ss_eqb (soft_state r) (rn_prev_soft rn) then None else Some (soft_state r) in
  let hard := if hs_eqb (hard_state r) (rn_prev_hard rn) then None else Some (hard_state r) in
  let snap := u_next_snapshot (l_unstable (r_log r)) in
  let ms := must_sync (hard_state r) (rn_prev_hard rn) (nlen ents) in
  if rn_async rn then
    do sa <- (if negb (N.eqb (nlen ents) 0) || negb (opt_hs_empty hard) || negb (opt_snap_empty snap) ||
                 negb (N.eqb (nlen (r_msgs_after_append r)) 0)
              then
                do resps <- (if need_storage_append_resp r snap
                             then do m <- storage_append_resp r snap; Ok (r_msgs_after_append r ++ [m])
                             else Ok (r_msgs_after_append r));
                Ok (Some (mkSA ents (if opt_hs_empty hard then None else hard)
                               (if opt_snap_empty snap then None else snap) resps))
              else Ok None);
    let sap := match cents with
               | [] => None
               | _ => Some (mkSAp cents (storage_apply_resp r cents))
               end in
    Ok (mkReady soft hard (r_read_states r) ents snap cents (r_msgs r) ms sa sap)
  else
    let extra := filter (fun m => negb (N.eqb (m_to m) (r_id r))) (r_msgs_after_append r) in
    Ok (mkReady soft hard (r_read_states r) ents snap cents (r_msgs r ++ extra) ms None None).

(* acceptReady *)
Definition accept_ready (rn : rawnode) (rd : ready) : res rawnode :=
  let r := rn_raft rn in
  let prevSoft := match rd_soft rd with Some s => s | None => rn_prev_soft rn end in
  let prevHard := match rd_hard rd with
                  | Some h => if is_empty_hs h then rn_prev_hard rn else h
                  | None => rn_prev_hard rn end in
  let r := match rd_read_states rd with [] => r | _ => set_r_read_states r [] end in
  do steps <- (if rn_async rn then Ok (rn_steps_on_advance rn) else
               match rn_steps_on_advance rn with
               | _ :: _ => Panic PTwoReadys
               | [] =>
                   let s1 := filter (fun m => N.eqb (m_to m) (r_id r)) (r_msgs_after_append r) in
                   do s2 <- (if need_storage_append_resp r (rd_snapshot rd)
                             then do m <- storage_append_resp r (rd_snapshot rd); Ok [m] else Ok []);
                   let s3 := match rd_committed rd with
                             | [] => []
                             | ents => [storage_apply_resp r ents] end in
                   Ok (s1 ++ s2 ++ s3)
               end);
  let r := set_r_msgs_after_append (set_r_msgs r []) [] in
  let r := set_r_log r (l_accept_unstable (r_log r)) in
  do r <- (match last_opt (rd_committed rd) with
           | Some e =>
               do l <- l_accept_applying (r_log r) (e_index e) (ents_size (rd_committed rd)) (negb (rn_async rn));
               Ok (set_r_log r l)
           | None => Ok r
           end);
  Ok (mkRN r (rn_async rn) prevSoft prevHard steps).

Definition rn_ready (rn : rawnode) : res (rawnode * ready) :=
  do rd <- ready_without_accept rn;
  do rn' <- accept_ready rn rd;
  Ok (rn', rd).

(* HasReady *)
Definition has_ready (rn : rawnode) : bool :=
  let r := rn_raft rn in
  negb (ss_eqb (soft_state r) (rn_prev_soft rn)) ||
  (negb (is_empty_hs (hard_state r)) && negb (hs_eqb (hard_state r) (rn_prev_hard rn))) ||
  (match u_next_snapshot (l_unstable (r_log r)) with Some _ => true | None => false end) ||
  negb (N.eqb (nlen (r_msgs r)) 0) || negb (N.eqb (nlen (r_msgs_after_append r)) 0) ||
  l_has_next_unstable_ents (r_log r) || l_has_next_committed_ents (r_log r) (negb (rn_async rn)) ||
  negb (N.eqb (nlen (r_read_states r)) 0).

(* Advance *)
Fixpoint step_all (r : raft) (ms : list message) : res raft :=
  match ms with
  | [] => Ok r
  | m :: rest => do x <- step st r m; step_all (fst x) rest
  end.

Definition rn_advance (rn : rawnode) : res rawnode :=
  if rn_async rn then Panic PAdvanceAsync else
  do r <- step_all (rn_raft rn) (rn_steps_on_advance rn);
  Ok (mkRN r (rn_async rn) (rn_prev_soft rn) (rn_prev_hard rn) []).

(* RawNode.Step *)
Definition rn_step (rn : rawnode) (m : message) : res (rawnode * err) :=
  if is_local_msg (m_type m) && negb (is_local_target (m_from m)) then Ok (rn, ErrStepLocalMsg) else
  if is_response_msg (m_type m) && negb (is_local_target (m_from m)) &&
     negb (amem (t_progress (r_trk (rn_raft rn))) (m_from m)) then Ok (rn, ErrStepPeerNotFound) else
  do x <- step st (rn_raft rn) m; Ok (rn_with_raft rn (fst x), snd x).

Definition rn_raft_step (rn : rawnode) (m : message) : res (rawnode * err) :=
  do x <- step st (rn_raft rn) m; Ok (rn_with_raft rn (fst x), snd x).

Definition rn_tick (rn : rawnode) : res rawnode :=
  do r <- tick st (rn_raft rn); Ok (rn_with_raft rn r).

Definition rn_tick_quiesced (rn : rawnode) : rawnode :=
  rn_with_raft rn (set_r_election_elapsed (rn_raft rn) (r_election_elapsed (rn_raft rn) + 1)).

Definition rn_campaign (rn : rawnode) := rn_raft_step rn (msg0 MsgHup).

Definition rn_propose (rn : rawnode) (data : bytes) :=
  rn_raft_step rn (set_entries (set_from (msg0 MsgProp) (r_id (rn_raft rn)))
                               [mkEntry 0 0 EntryNormal false data (match data with [] => false | _ => true end) false]).

(* ProposeConfChange: the marshalled entry (type, data, decoded "leave" bit) is the input *)
Definition rn_propose_cc (rn : rawnode) (e : entry) :=
  rn_raft_step rn (set_entries (msg0 MsgProp) [e]).

Definition rn_apply_conf_change (rn : rawnode) (cc : confchange_v2) : res (rawnode * confstate) :=
  do x <- apply_conf_change_raft st (rn_raft rn) cc; Ok (rn_with_raft rn (fst x), snd x).

Definition rn_report_unreachable (rn : rawnode) (id : N) :=
  rn_raft_step rn (set_from (msg0 MsgUnreachable) id).

Definition rn_report_snapshot (rn : rawnode) (id : N) (failure : bool) :=
  let m := set_from (msg0 MsgSnapStatus) id in
  rn_raft_step rn (mkMsg (m_type m) (m_to m) (m_from m) 0 0 0 [] 0 0 None failure 0 []).

Definition rn_transfer_leader (rn : rawnode) (id : N) :=
  rn_raft_step rn (set_from (msg0 MsgTransferLeader) id).

Definition rn_forget_leader (rn : rawnode) := rn_raft_step rn (msg0 MsgForgetLeader).

Definition rn_read_index (rn : rawnode) (ctx : bytes) :=
  rn_raft_step rn (set_entries (msg0 MsgReadIndex) [mkEntry 0 0 EntryNormal false ctx (match ctx with [] => false | _ => true end) false]).

End WithStorage.

(* ---------- one node = RawNode + its MemoryStorage ---------- *)

Record nstate := mkNode {
  n_rn : option rawnode;      (* None while stopped *)
  n_st : memstorage;
}.

Inductive ninput :=
| INew (c : rconfig)                 (* NewRawNode over the current storage (start / restart) *)
| IStop                              (* crash: the RawNode is lost, storage stays *)
| ITick | ITickQuiesced | ICampaign
| IPropose (data : bytes)
| IProposeCC (e : entry)
| IApplyCC (cc : confchange_v2)
| IStep (m : message)
| IReady | IHasReady | IAdvance
| IReportUnreachable (id : N)
| IReportSnapshot (id : N) (failure : bool)
| ITransferLeader (id : N)
| IForgetLeader
| IReadIndex (ctx : bytes)
| IStAppend (ents : list entry)
| IStSetHardState (h : hardstate)
| IStApplySnapshot (s : snapshot)
| IStCreateSnapshot (i : N) (cs : option confstate) (data : bytes)
| IStCompact (i : N).

Inductive noutput :=
| ONone
| OErr (e : err)
| OBool (b : bool)
| OReady (rd : ready)
| OConfState (cs : confstate)
| OSnapshot (s : option snapshot) (e : err)
| ONotRunning.

Definition with_draws (rn : rawnode) (draws : list N) : rawnode :=
  rn_with_raft rn (set_r_draws (rn_raft rn) draws).

(* node_step: the input, the random draws it may consume, the node *)
Definition node_step (n : nstate) (i : ninput) (draws : list N) : res (nstate * noutput) :=
  let st := n_st n in
  let ret_rn (x : res rawnode) := do rn <- x; Ok (mkNode (Some rn) st, ONone) in
  let ret_err (x : res (rawnode * err)) := do y <- x; Ok (mkNode (Some (fst y)) st, OErr (snd y)) in
  match i with
  | INew c => do rn <- new_rawnode st c draws; Ok (mkNode (Some rn) st, ONone)
  | IStop => Ok (mkNode None st, ONone)
  | IStAppend ents => do st' <- ms_append st ents; Ok (mkNode (n_rn n) st', ONone)
  | IStSetHardState h => Ok (mkNode (n_rn n) (ms_set_hardstate st h), ONone)
  | IStApplySnapshot s => let '(st', e) := ms_apply_snapshot st s in Ok (mkNode (n_rn n) st', OErr e)
  | IStCreateSnapshot idx cs data =>
      do x <- ms_create_snapshot st idx cs data;
      let '(st', snap, e) := x in Ok (mkNode (n_rn n) st', OSnapshot snap e)
  | IStCompact idx => do x <- ms_compact st idx; Ok (mkNode (n_rn n) (fst x), OErr (snd x))
  | _ =>
      match n_rn n with
      | None => Ok (n, ONotRunning)
      | Some rn0 =>
          let rn := with_draws rn0 draws in
          match i with
          | ITick => ret_rn (rn_tick st rn)
          | ITickQuiesced => ret_rn (Ok (rn_tick_quiesced rn))
          | ICampaign => ret_err (rn_campaign st rn)
          | IPropose data => ret_err (rn_propose st rn data)
          | IProposeCC e => ret_err (rn_propose_cc st rn e)
          | IApplyCC cc =>
              do x <- rn_apply_conf_change st rn cc;
              Ok (mkNode (Some (fst x)) st, OConfState (snd x))
          | IStep m => ret_err (rn_step st rn m)
          | IReady => do x <- rn_ready st rn; Ok (mkNode (Some (fst x)) st, OReady (snd x))
          | IHasReady => Ok (mkNode (Some rn) st, OBool (has_ready rn))
          | IAdvance => ret_rn (rn_advance st rn)
          | IReportUnreachable id => ret_err (rn_report_unreachable st rn id)
          | IReportSnapshot id f => ret_err (rn_report_snapshot st rn id f)
          | ITransferLeader id => ret_err (rn_transfer_leader st rn id)
          | IForgetLeader => ret_err (rn_forget_leader st rn)
          | IReadIndex ctx => ret_err (rn_read_index st rn ctx)
          | _ => Ok (n, ONone)
          end
      end
  end.

Definition init_node : nstate := mkNode None new_memstorage.

(* a node-local history: any list of inputs with the draws each may consume *)
Fixpoint node_run (n : nstate) (ins : list (ninput * list N)) : res nstate :=
  match ins with
  | [] => Ok n
  | (i, d) :: rest => do x <- node_step n i d; node_run (fst x) rest
  end.
